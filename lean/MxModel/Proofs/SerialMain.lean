import MxModel.Proofs.SerialExec
/-! `read (write m) = .ok m`: the parts put together (`read_write`). -/
namespace MxModel.Serial
open MxModel.PathCodec MxModel.Generated

/-- all deferred instructions of the written description, in parse order -/
def allOps (m : MDesc) : List (Path × Op) :=
  (modelOpsOf m).map (fun o => (([] : Path), o)) ++ flatNodes [] (nodesOf m.name [] m.spaces)

def infos (m : MDesc) : List (Path × SpaceInfo) := infosOfL [] m.spaces

theorem allOps_eq (m : MDesc) :
    allOps m = tag [] (modelOpsOf m) ++ (infos m).flatMap (fun e => tag (own e) (opsOfSpace m.name e.1 e.2)) := by
  simp [allOps, tag, infos, flatNodes_eq]

theorem filter_tag (p : Path) (ops : List Op) (k : Nat) :
    (tag p ops).filter (fun i => decide (i.2.phase = some k)) = tag p (ops.filter (phk k)) := by
  unfold tag
  rw [List.filter_map]
  rfl

theorem filter_allOps (m : MDesc) (k : Nat) :
    (allOps m).filter (fun i => decide (i.2.phase = some k)) =
      tag [] ((modelOpsOf m).filter (phk k)) ++
        (infos m).flatMap (fun e => tag (own e) ((opsOfSpace m.name e.1 e.2).filter (phk k))) := by
  rw [allOps_eq, List.filter_append, filter_tag, List.filter_flatMap]
  simp only [filter_tag]

theorem baseDefs_eq (m : MDesc) : baseDefs m = (infos m).map (fun e => (own e, e.2.bases)) :=
  spacesBases_eq [] m.spaces

theorem phase1_allOps (m : MDesc) :
    (allOps m).filter (fun i => decide (i.2.phase = some 1)) = (baseDefs m).map (basesOp m.name) := by
  rw [filter_allOps, (filter_modelOpsOf m).2.1, baseDefs_eq]
  simp only [(filter_opsOfSpace m.name _ _).2.1, tag, List.map_nil, List.nil_append, List.map_cons, List.map_map]
  induction infos m with
  | nil => rfl
  | cons e rest ih => simp [List.flatMap_cons, ih, basesOp, Function.comp_def]

def dynDefs (m : MDesc) : List (Path × DynInput) :=
  (infos m).flatMap (fun e => e.2.dynInputs.map (fun d => (own e, d)))

theorem phase4_allOps (m : MDesc) :
    (allOps m).filter (fun i => decide (i.2.phase = some 4)) =
      (dynDefs m).map (fun e => (e.1, dynOpOf m.name e.1 e.2)) := by
  rw [filter_allOps, (filter_modelOpsOf m).2.2.2.2]
  simp only [(filter_opsOfSpace m.name _ _).2.2.2.2, tag, List.map_nil, List.nil_append, dynDefs, dynOpsOf,
    List.map_flatMap, List.map_map, Function.comp_def]
  rfl

theorem refDefs_eq (m : MDesc) :
    refDefs m = m.refs.map (fun r => (([] : Path), (⟨r.1, r.2, .auto⟩ : RefD))) ++
      (infos m).flatMap (fun e => e.2.refs.map (fun r => (own e, r))) := by
  simp [refDefs, infos, spacesRefDefs_eq]

theorem phase3_allOps (m : MDesc) :
    (allOps m).filter (fun i => decide (i.2.phase = some 3)) = (refDefs m).map (refOpAt m.name) := by
  rw [filter_allOps, (filter_modelOpsOf m).2.2.2.1, refDefs_eq, List.map_append]
  congr 1
  · simp [tag, modelRefs, List.map_map, Function.comp_def, refOpAt, refOpOf]
  · have hown : ∀ e : Path × SpaceInfo, (own e == []) = false := fun e => beq_eq_false_iff_ne.mpr (own_ne_nil e)
    simp only [(filter_opsOfSpace m.name _ _).2.2.2.1, tag, refOps, spaceRefs, List.map_flatMap, List.map_map,
      Function.comp_def, refOpAt, hown]
    rfl

/-! ## the pickle ids are in the table -/

theorem elemIds_idt (model : Name) (p : Path) : ∀ el ∈ idt model p, elemIds el = [] := by
  intro el hel
  simp only [idt, List.mem_map] at hel
  obtain ⟨n, _, rfl⟩ := hel
  rfl

theorem opIds_dynOpOf (model : Name) (path : Path) (d : DynInput) :
    ∀ x ∈ opIds (dynOpOf model path d), x ∈ [d.key, d.val] ++ d.addr.flatMap elemIds := by
  intro x hx
  simp only [dynOpOf, opIds, List.mem_append] at hx ⊢
  rcases hx with hx | hx
  · exact Or.inl hx
  · right
    simp only [absToRelTuple, List.flatMap_cons, show ∀ s, elemIds (Elem.str s) = [] from fun _ => rfl,
      List.nil_append, List.mem_flatMap] at hx ⊢
    obtain ⟨el, hel, hxel⟩ := hx
    have hmem := List.mem_of_mem_drop hel
    rcases List.mem_append.mp hmem with h | h
    · rw [elemIds_idt model path el h] at hxel; cases hxel
    · exact ⟨el, h, hxel⟩

theorem opIds_trailerOps (c : CellsD) : ∀ o ∈ trailerOps c, opIds o = [] := by
  intro o ho
  unfold trailerOps at ho
  cases hf : c.formula <;> cases hd : c.doc <;> cases ha : c.allowNone <;> cases hc : c.isCached <;>
    simp [hf, hd, ha, hc] at ho <;>
    (first | (rcases ho with rfl | rfl | rfl) | (rcases ho with rfl | rfl) | (cases ho)) <;> rfl

theorem opIds_opsOfSpace (model : Name) (parent : Path) (i : SpaceInfo) :
    ∀ o ∈ opsOfSpace model parent i, ∀ x ∈ opIds o, x ∈ infoIds i := by
  intro o ho x hx
  rw [opsOfSpace_eq] at ho
  simp only [List.mem_append, List.mem_cons, List.not_mem_nil, or_false] at ho
  unfold infoIds
  rcases ho with (((ho | ho) | ho) | ho) | ho
  · cases hd : i.doc <;> simp [docOps, hd] at ho
    subst ho; cases hx
  · rcases ho with rfl | rfl | rfl <;> cases hx
  · simp only [List.mem_flatMap] at ho
    obtain ⟨c, hc, hoc⟩ := ho
    simp only [cellOps, List.mem_cons, List.mem_append, List.not_mem_nil, or_false] at hoc
    rcases hoc with (rfl | hoc) | rfl
    · cases hx
    · rw [opIds_trailerOps c o hoc] at hx; cases hx
    · simp only [List.mem_append]
      left; right
      simp only [List.mem_flatMap]
      exact ⟨c, hc, by simpa [opIds, List.mem_flatMap] using hx⟩
  · simp only [refOps, spaceRefs, List.mem_map] at ho
    obtain ⟨_, ⟨r, hr, rfl⟩, rfl⟩ := ho
    have : opIds (refOpOf false model (parent ++ [i.name]) (r.name, r.val, r.mode.text)) = refValIds r.val := by
      unfold refOpOf; split <;> simp [opIds, decodedIds_decodedOf]
    rw [this] at hx
    simp only [List.mem_append]
    left; left
    simp only [List.mem_flatMap]
    exact ⟨r, hr, hx⟩
  · simp only [dynOpsOf, List.mem_map] at ho
    obtain ⟨d, hd, rfl⟩ := ho
    have := opIds_dynOpOf model (parent ++ [i.name]) d x hx
    simp only [List.mem_append]
    right
    simp only [List.mem_flatMap]
    exact ⟨d, hd, by simpa using this⟩

theorem opIds_modelOpsOf (m : MDesc) : ∀ o ∈ modelOpsOf m, ∀ x ∈ opIds o, x ∈ m.refs.flatMap (fun r => refValIds r.2) := by
  intro o ho x hx
  unfold modelOpsOf at ho
  simp only [List.mem_append, List.mem_cons, List.not_mem_nil, or_false] at ho
  rcases ho with (ho | rfl) | ho
  · cases hd : m.doc <;> simp [hd] at ho
    subst ho; cases hx
  · cases hx
  · simp only [modelRefs, List.mem_map] at ho
    obtain ⟨_, ⟨r, hr, rfl⟩, rfl⟩ := ho
    have : opIds (refOpOf true m.name [] (r.1, r.2, kNone)) = refValIds r.2 := by
      simp [refOpOf, opIds, decodedIds_decodedOf]
    rw [this] at hx
    simp only [List.mem_flatMap]
    exact ⟨r, hr, hx⟩

theorem pickleIds_eq (m : MDesc) :
    pickleIds m = m.refs.flatMap (fun r => refValIds r.2) ++ (infos m).flatMap (fun e => infoIds e.2) := by
  simp [pickleIds, infos, spacesIds_eq []]

theorem opIds_allOps (m : MDesc) : ∀ e ∈ allOps m, ∀ x ∈ opIds e.2, (ctxOf m).pickle.contains x = true := by
  intro e he x hx
  simp only [ctxOf, List.contains_iff_mem, pickleIds_eq, List.mem_append]
  rw [allOps_eq] at he
  rcases List.mem_append.mp he with he | he
  · simp only [tag, List.mem_map] at he
    obtain ⟨o, ho, rfl⟩ := he
    exact Or.inl (opIds_modelOpsOf m o ho x hx)
  · simp only [List.mem_flatMap, tag, List.mem_map] at he
    obtain ⟨i, hi, o, ho, rfl⟩ := he
    right
    simp only [List.mem_flatMap]
    exact ⟨i, hi, opIds_opsOfSpace m.name i.1 i.2 o ho x hx⟩

/-! ## what well-formedness gives the checks -/

theorem bases_ok (m : MDesc) (hwf : WellFormed m) :
    ∀ e ∈ baseDefs m, ∀ b ∈ e.2, (ctxOf m).spaces.contains b = true ∧ b.all validName = true := by
  intro e he b hb
  rw [baseDefs_eq] at he
  simp only [List.mem_map] at he
  obtain ⟨i, hi, rfl⟩ := he
  have hinfo := spacesWF_infos (ctxOf m) (baseDefs m) [] m.spaces (wellFormed_parts m hwf).2.2.2.2 i hi
  exact (infoWF_parts _ _ _ hinfo).2.2.2.2.2.2 b hb

theorem refs_ok (m : MDesc) (hwf : WellFormed m) :
    ∀ e ∈ refDefs m, refValWF (ctxOf m) (baseDefs m) e.2.val = true := by
  intro e he
  rw [refDefs_eq] at he
  rcases List.mem_append.mp he with he | he
  · simp only [List.mem_map] at he
    obtain ⟨r, hr, rfl⟩ := he
    exact ((wellFormed_parts m hwf).2.1 r hr).2
  · simp only [List.mem_flatMap, List.mem_map] at he
    obtain ⟨i, hi, r, hr, rfl⟩ := he
    have hinfo := spacesWF_infos (ctxOf m) (baseDefs m) [] m.spaces (wellFormed_parts m hwf).2.2.2.2 i hi
    exact ((infoWF_parts _ _ _ hinfo).2.2.2.1 r hr).2

theorem refIds_ok (m : MDesc) :
    ∀ e ∈ refDefs m, ∀ x ∈ refValIds e.2.val, (ctxOf m).pickle.contains x = true := by
  intro e he x hx
  simp only [ctxOf, List.contains_iff_mem, pickleIds_eq, List.mem_append]
  rw [refDefs_eq] at he
  rcases List.mem_append.mp he with he | he
  · simp only [List.mem_map] at he
    obtain ⟨r, hr, rfl⟩ := he
    left
    simp only [List.mem_flatMap]
    exact ⟨r, hr, hx⟩
  · simp only [List.mem_flatMap, List.mem_map] at he
    obtain ⟨i, hi, r, hr, rfl⟩ := he
    right
    simp only [List.mem_flatMap]
    refine ⟨i, hi, ?_⟩
    unfold infoIds
    simp only [List.mem_append, List.mem_flatMap]
    exact Or.inl (Or.inl ⟨r, hr, hx⟩)

theorem ctx_of_nodes (m : MDesc) :
    (⟨m.name, nodesPaths [] (nodesOf m.name [] m.spaces), nodesCells [] (nodesOf m.name [] m.spaces),
      pickleIds m⟩ : Ctx) = ctxOf m := by
  simp [ctxOf, nodesPaths_eq, nodesCells_eq, spacesPaths_eq, spacesCells_eq]

/-- **every check of the reader passes on what the writer wrote, and no ItemSpace input is lost** -/
theorem run_write (m : MDesc) (hwf : WellFormed m) (hb : NoBasesOrderConflict m) (hr : NoRefOverrideOrder m)
    (hrr : NoRelRefOverrideOrder m) :
    ∃ st, runE (step (ctxOf m)) RState.init (schedule (fun i => i.2.phase) (allOps m)) = .ok st ∧
      st.dropped = [] := by
  have hmodel : validName (ctxOf m).model = true := (wellFormed_parts m hwf).1
  rw [schedule_eq, phase1_allOps, phase3_allOps, phase4_allOps]
  -- phase 0
  have h0 : runE (step (ctxOf m)) RState.init ((allOps m).filter (fun i => decide (i.2.phase = some 0))) =
      .ok RState.init :=
    run_phase0 _ _ _ rfl (fun e he => by simpa using (List.mem_filter.mp he).2)
  -- phase 1
  have h1 : runE (step (ctxOf m)) RState.init ((baseDefs m).map (basesOp m.name)) =
      .ok ⟨baseDefs m, [], [], []⟩ :=
    run_bases (ctxOf m) hmodel (baseDefs m) RState.init rfl (bases_ok m hwf) hb
  -- phase 2
  have h2 : ∀ st, runE (step (ctxOf m)) st ((allOps m).filter (fun i => decide (i.2.phase = some 2))) = .ok st :=
    fun st => run_phase2 _ _ _ (fun e he => by simpa using (List.mem_filter.mp he).2)
      (fun e he => opIds_allOps m e (List.mem_filter.mp he).1)
  -- phase 3
  have h3 : runE (step (ctxOf m)) ⟨baseDefs m, [], [], []⟩ ((refDefs m).map (refOpAt m.name)) =
      .ok ⟨baseDefs m, (refDefs m).map (fun e => (e.1, e.2.name)), [], []⟩ :=
    run_refs (ctxOf m) (refDefs m) ⟨baseDefs m, [], [], []⟩ rfl (refIds_ok m) (refs_ok m hwf) hr hrr
  -- phase 4
  obtain ⟨st, h4, hdrop⟩ := run_dyn (ctxOf m)
    ⟨baseDefs m, (refDefs m).map (fun e => (e.1, e.2.name)), [], []⟩ (dynDefs m)
    (fun e he => by
      have : (e.1, dynOpOf (ctxOf m).model e.1 e.2) ∈ allOps m := by
        have hm : (e.1, dynOpOf m.name e.1 e.2) ∈ (dynDefs m).map (fun e => (e.1, dynOpOf m.name e.1 e.2)) :=
          List.mem_map.mpr ⟨e, he, rfl⟩
        rw [← phase4_allOps] at hm
        exact (List.mem_filter.mp hm).1
      exact opIds_allOps m _ this)
  refine ⟨st, ?_, hdrop⟩
  simp only [List.append_assoc]
  rw [runE_append _ _ _ _ _ h0, runE_append _ _ _ _ _ h1, runE_append _ _ _ _ _ (h2 _),
    runE_append _ _ _ _ _ h3]
  exact h4

/-- **the round trip**, from the named hypotheses -/
theorem read_write (m : MDesc) (hwf : WellFormed m) (hk : Hk m) : read (write m) = .ok m := by
  have hparse := parseModel_write m hwf hk.sectionMarker
  obtain ⟨st, hrun, hdrop⟩ := run_write m hwf hk.basesOrder hk.refOverride hk.relRefOverride
  have hmodel : validName m.name = true := (wellFormed_parts m hwf).1
  have hnodes := assemble_nodesOf m.name hmodel [] m.spaces
    (allLocalL_spaces m hwf hk.refmode hk.derivedInput hk.defText)
  unfold read
  simp only [hparse, phaseChecks_eq, Bool.not_true, Bool.false_eq_true, if_false, ctx_of_nodes]
  rw [show (modelOpsOf m).map (fun o => (([] : Path), o)) ++ flatNodes [] (nodesOf m.name [] m.spaces) = allOps m
    from rfl, hrun]
  simp only [hdrop, hnodes, assemble_model]

end MxModel.Serial

namespace MxModel.Serial
open MxModel.PathCodec

/-! ## which files the writer writes -/

mutual
theorem initPaths_writeSpace (model : Name) (parent : Path) :
    ∀ s : SpaceD, (writeSpace model parent s).initPaths (parent ++ [s.name]) = spacePaths parent s
  | .mk i cs => by
    simp [writeSpace, Dir.initPaths, spacePaths, SpaceD.name, SpaceD.info,
      initPathsL_writeSpaces model (parent ++ [i.name]) cs]
theorem initPathsL_writeSpaces (model : Name) (parent : Path) :
    ∀ cs : List SpaceD, Dir.initPathsL parent (writeSpaces model parent cs) = spacesPaths parent cs
  | [] => rfl
  | s :: ss => by
    simp [writeSpaces, Dir.initPathsL, spacesPaths, writeSpace_name, initPaths_writeSpace model parent s,
      initPathsL_writeSpaces model parent ss]
end

/-- the names of the `_data` files of a space: the cells that hold input values, and `_dynamic_inputs` if
an ItemSpace holds one -/
def dataNames (i : SpaceInfo) : List Name :=
  ((i.cells.filter (fun c => !c.inputs.isEmpty)).map (·.name)) ++
    (if i.dynInputs.isEmpty then [] else [fDynInputs])

theorem spaceData_names (model : Name) (path : Path) (i : SpaceInfo) :
    (spaceData model path i).map (·.1) = dataNames i := by
  unfold spaceData dataNames
  by_cases h : i.dynInputs.isEmpty <;> simp [h, List.map_map, Function.comp_def]

mutual
theorem dataPaths_writeSpace (model : Name) (parent : Path) :
    ∀ s : SpaceD, (writeSpace model parent s).dataPaths (parent ++ [s.name]) =
      (infosOf parent s).flatMap (fun e => (dataNames e.2).map (fun n => (own e, n)))
  | .mk i cs => by
    simp [writeSpace, Dir.dataPaths, infosOf, SpaceD.name, SpaceD.info, own, ← spaceData_names model (parent ++ [i.name]) i,
      List.map_map, Function.comp_def, dataPathsL_writeSpaces model (parent ++ [i.name]) cs]
theorem dataPathsL_writeSpaces (model : Name) (parent : Path) :
    ∀ cs : List SpaceD, Dir.dataPathsL parent (writeSpaces model parent cs) =
      (infosOfL parent cs).flatMap (fun e => (dataNames e.2).map (fun n => (own e, n)))
  | [] => rfl
  | s :: ss => by
    simp [writeSpaces, Dir.dataPathsL, infosOfL, writeSpace_name, dataPaths_writeSpace model parent s,
      dataPathsL_writeSpaces model parent ss]
end

end MxModel.Serial
