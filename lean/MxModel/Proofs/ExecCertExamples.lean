import MxModel.Proofs.ExecCertRunOps
/-!
# The example programs of `Props/C02.lean` (non-vacuity, witnesses)

`xEnv`: space 0 holds `c0(x) = x + r0` (reference `r0` of space 0, by name), the uncached
`c1(x) = c0(x) + r1` (`r1` lives in space 1: attribute path) and `c3() = c2(1) + r0` (by attribute path
`_space.r0`); space 1 holds `c2(x) = c1(x) * r1` (`r1` by name).  `xOps`: a history with reference and
value edits; `yOps`: one in which `c0` is deleted and created again.  `cEnv`, `dEnv`: the two-cells
witnesses for the hypothesis `NoCatchEnv`.
-/
namespace MxModel.C02
open MxModel.Exec

def xCells : CellId → Option Expr
  | 0 => some (.add (.param 0) (.readN 0))
  | 1 => some (.add (.call 0 [.param 0]) (.readA 1))
  | 2 => some (.mul (.call 1 [.param 0]) (.readN 1))
  | 3 => some (.add (.call 2 [.lit 1]) (.readA 0))
  | _ => none

def xAr : CellId → Option Nat
  | 0 => some 1 | 1 => some 1 | 2 => some 1 | 3 => some 0 | _ => none

def xEnv : Env :=
  tableEnv xCells xAr [0, 1, 2, 3] (fun c => c != 1) (fun _ => false)
    (fun c => if c = 2 then 1 else 0) (fun r => if r = 1 then 1 else 0)
    (fun r => if r = 0 then some (.int 10) else if r = 1 then some (.int 2) else none) 50

theorem xEnv_wf : WF xEnv idLt :=
  tableEnv_wf_aux _ _ _ _ _ _ _ _ _ _ _
    (by intro i e h
        match i, h with
        | 0, _ => simp
        | 1, _ => simp
        | 2, _ => simp
        | 3, _ => simp)
    (by intro i e h
        match i, h with
        | 0, h => cases h; exact ⟨rfl, rfl⟩
        | 1, h => cases h; exact ⟨rfl, rfl⟩
        | 2, h => cases h; exact ⟨rfl, rfl⟩
        | 3, h => cases h; exact ⟨rfl, rfl⟩)

def xOps : List Op :=
  [.eval (3, []), .eval (0, [.int 5]), .setRef 1 (.int 3), .eval (3, []), .setRef 0 (.int 20), .eval (3, []),
   .setValue (0, [.int 1]) (.int 100), .eval (3, []), .delRef 1, .eval (3, []), .setRef 1 (.int 1), .eval (3, [])]

/-- the history is admissible: it contains no formula edit, so the regime is kept throughout -/
theorem xOps_admissible : ∀ (ops : List Op) (st : Env × St), WF st.1 idLt →
    (∀ op ∈ ops, match op with
      | .setFormula _ _ => False | .setCached _ _ => False | .newCell _ _ _ _ => False | _ => True) →
    Admissible idLt st ops := by
  intro ops
  induction ops with
  | nil => intro _ _ _; trivial
  | cons op rest ih =>
    intro st hw hall
    obtain ⟨env, s⟩ := st
    have hstep : WF (step (env, s) op).1 idLt := by
      have := hall op (by simp)
      cases op with
      | eval n => exact hw
      | setValue n v => exact hw
      | clearAt n => exact hw
      | clear c => exact hw
      | clearAll c => exact hw
      | setRef r v => exact wf_withRef hw r (some v)
      | delRef r =>
        simp only [step]
        split
        · exact wf_withRef hw r none
        · exact hw
      | setFormula c f => exact this.elim
      | setCached c b => exact this.elim
      | delCell c =>
        simp only [step]
        split
        · exact wf_withAlive hw c false
        · exact hw
      | newCell c f b an => exact this.elim
      | maxdepth k => exact wf_withMaxdepth hw k
      | admin a => exact hw
    exact ⟨hstep, ih _ hstep (fun op' h' => hall op' (by simp [h']))⟩

def yOps : List Op :=
  [.eval (3, []), .eval (0, [.int 5]), .setValue (0, [.int 9]) (.int 100), .delCell 0, .eval (3, []),
   .newCell 0 (fun _ => .ret (.int 1)) true false, .eval (3, [])]

theorem yOps_admissible : Admissible idLt (xEnv, {}) yOps := by
  have w0 := xEnv_wf
  have w1 : WF (xEnv.withAlive 0 false) idLt := wf_withAlive w0 0 false
  have w2 : WF ((xEnv.withAlive 0 false).withCell 0 (fun _ => .ret (.int 1)) true false) idLt :=
    wf_withCell w1 0 _ true false (fun _ => ⟨trivial, trivial, trivial⟩)
  exact ⟨w0, w0, w0, w1, w1, w2, w2, trivial⟩

/-! a flag edit keeps the regime; a formula edit keeps it when the new formula is in it -/

theorem wf_withCached {env : Env} {lt : Node → Node → Prop} (h : WF env lt) (c : CellId) (b : Bool) :
    WF (env.withCached c b) lt := ⟨h.ranked, h.noCatch, h.scoping⟩

theorem wf_withFormula {env : Env} {lt : Node → Node → Prop} (h : WF env lt) (c : CellId) (f : Key → Prog)
    (hf : ∀ k, CallsBelow lt (c, k) (f k) ∧ NoCatch (f k) ∧ NameReadsIn (fun r => c ∈ env.observers r) (f k)) :
    WF (env.withFormula c f) lt := by
  refine ⟨?_, ?_, ?_⟩
  · intro n
    show CallsBelow lt n (if n.1 = c then f n.2 else env.formula n)
    split
    · rename_i hn
      have : n = (c, n.2) := by rw [← hn]
      rw [this]; exact (hf n.2).1
    · exact h.ranked n
  · intro n
    show NoCatch (if n.1 = c then f n.2 else env.formula n)
    split
    · exact (hf n.2).2.1
    · exact h.noCatch n
  · intro n
    show NameReadsIn (fun r => n.1 ∈ env.observers r) (if n.1 = c then f n.2 else env.formula n)
    split
    · rename_i hn; rw [hn]; exact (hf n.2).2.2
    · exact h.scoping n

/-- the new formula of `c3`: `c3() = c0(1)` -/
def zK : Res → Prog
  | .ok v => .ret v
  | .err e => .reraise e

def zF : Key → Prog := fun _ => .call (0, [.int 1]) zK

/-- a history with a switch of `is_cached` (the uncached `c1` becomes cached) and a FORMULA EDIT (of
`c3`) between evaluations and a reference edit -/
def zOps : List Op :=
  [.eval (3, []), .setCached 1 true, .eval (3, []), .setFormula 3 zF, .eval (3, []), .setRef 0 (.int 7),
   .eval (3, [])]

theorem zOps_admissible : Admissible idLt (xEnv, {}) zOps := by
  have w0 := xEnv_wf
  have w1 : WF (xEnv.withCached 1 true) idLt := wf_withCached w0 1 true
  have w2 : WF ((xEnv.withCached 1 true).withFormula 3 zF) idLt :=
    wf_withFormula w1 3 zF (fun _ => ⟨⟨by show (0 : Nat) < 3; omega, fun r => by cases r <;> trivial⟩,
      ⟨fun _ => trivial, fun r => by cases r <;> trivial⟩, fun r => by cases r <;> trivial⟩)
  have w3 : WF (((xEnv.withCached 1 true).withFormula 3 zF).withRef 0 (some (.int 7))) idLt :=
    wf_withRef w2 0 _
  exact ⟨w0, w1, w1, w2, w2, w3, w3, trivial⟩

def cCells : CellId → Option Expr
  | 0 => some (.ite (.lt (.readN 0) (.lit 1)) (.raise kValue) (.readN 0))
  | 1 => some (.try_ (.call 0 []) .all (.lit (-1)))
  | _ => none

def cAr : CellId → Option Nat
  | 0 => some 0 | 1 => some 0 | _ => none

def cEnv : Env :=
  tableEnv cCells cAr [0, 1] (fun _ => true) (fun _ => false) (fun c => if c = 1 then 1 else 0) (fun _ => 0)
    (fun r => if r = 0 then some (.int 0) else none) 50

def dCells : CellId → Option Expr
  | 0 => some (.lit 5)
  | 1 => some (.try_ (.call 0 []) .all (.lit (-1)))
  | _ => none

def dEnv : Env :=
  tableEnv dCells cAr [0, 1] (fun _ => true) (fun _ => false) (fun c => if c = 1 then 1 else 0) (fun _ => 0)
    (fun _ => none) 50 (fun i c => if c = 0 then some (i == 1) else none) (fun c => c != 0)

end MxModel.C02
