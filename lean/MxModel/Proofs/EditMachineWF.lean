import MxModel.Proofs.EditMachineRun
import MxModel.Proofs.ExecResolveDerived
/-!
# How the regime `WF` is guaranteed for definitions read off a structure

`NoCatchEnv` and `Scoped` of `envOf P t st` follow, for EVERY structural state, from properties of
the sources alone (quantified over all namespaces they could be resolved in):

* `NsNoCatch p`: resolved in any namespace, `p` turns no failure into a value;
* `NsScoped p`: resolved in any namespace, `p` reads by global name only references the namespace
  binds a name to – true of every source whose by-name reads are `SProg.readN` / `SProg.callN`
  (`LOAD_GLOBAL` of a name, then use of what was found).

`Ranked` (terminating programs: every call goes to a smaller node in a fixed strict order) depends on
which cells the names are bound to, i.e. on the structure; it stays a hypothesis of the history
theorems (`Admissible`), discharged here for sources that call nothing (`NsNoCalls`).
-/
namespace MxModel.Edit
open MxModel.Exec MxModel.C02 MxModel.SM

def NsNoCatch (p : SProg) : Prop := ∀ ns : Ns, NoCatch (resolve ns p)

def NsScoped (p : SProg) : Prop :=
  ∀ ns : Ns, NameReadsIn (fun r => ∃ x, ns x = some (.ref r)) (resolve ns p)

def NsNoCalls (p : SProg) : Prop :=
  ∀ (ns : Ns) (lt : Node → Node → Prop) (n : Node), CallsBelow lt n (resolve ns p)

theorem cellInfo_some {t : Tabs} {st : SM.St} {c : CellId} {q : Path} {x : String} {m : Member}
    (h : cellInfo t st c = some (q, x, m)) :
    t.cellOf c = some (q, x) ∧ t.cid q x = c ∧ st.mem .cells q x = some m := by
  unfold cellInfo at h
  cases hd : t.cellOf c with
  | none => rw [hd] at h; cases h
  | some e =>
    obtain ⟨q', x'⟩ := e
    rw [hd] at h
    simp only at h
    split at h
    · rename_i hb
      simp only [Option.map_eq_some_iff, Prod.mk.injEq] at h
      obtain ⟨m', hm', rfl, rfl, rfl⟩ := h
      exact ⟨rfl, by simpa using hb, hm'⟩
    · cases h

theorem noCatch_envOf (P : Params) (t : Tabs) (st : SM.St) (h : ∀ v key, NsNoCatch (P.srcOf v key)) :
    NoCatchEnv (envOf P t st) := by
  intro n
  simp only [envOf]
  cases hi : cellInfo t st n.1 with
  | none => trivial
  | some i =>
    obtain ⟨q, x, m⟩ := i
    exact h _ _ _

theorem scoped_envOf (P : Params) (t : Tabs) (st : SM.St) (ha : AllocOK t st) (hs : t.slots = [])
    (h : ∀ v key, NsScoped (P.srcOf v key)) : Scoped (envOf P t st) := by
  intro n
  show NameReadsIn _ ((envOf P t st).formula n)
  simp only [envOf]
  cases hi : cellInfo t st n.1 with
  | none => trivial
  | some i =>
    obtain ⟨q, x, m⟩ := i
    obtain ⟨_, hcid, hm⟩ := cellInfo_some hi
    have hqi : q ∈ st.ids := mem_ids_of_isSome st .cells q x (by rw [hm]; rfl)
    refine nameReadsIn_mono ?_ _ (h m.payload n.2 (nsAt t st q))
    rintro r ⟨y, hy⟩
    unfold nsAt at hy
    cases hq : qualOf t q y with
    | some e =>
      -- no attribute slot is declared
      simp [qualOf, hs] at hq
    | none =>
      rw [hq] at hy
      simp only at hy
      unfold nsPlain at hy
      split at hy
      · cases hy
      · split at hy
        · rename_i hg
          simp only [Option.some.injEq, Binding.ref.injEq] at hy
          subst hy
          simp only [refOf_rid t q y (ha.gslots q y hqi (by simpa using hg))]
          rw [← hcid]
          exact mem_cellsOf t st q x (by rw [hm]; rfl)
        · split at hy
          · cases hy
          · split at hy
            · rename_i hr
              simp only [Option.some.injEq, Binding.ref.injEq] at hy
              subst hy
              simp only [refOf_rid t q y (ha.refs q y hr)]
              rw [← hcid]
              exact mem_cellsOf t st q x (by rw [hm]; rfl)
            · cases hy

theorem ranked_envOf_noCalls (P : Params) (t : Tabs) (st : SM.St) (lt : Node → Node → Prop)
    (h : ∀ v key, NsNoCalls (P.srcOf v key)) : Ranked (envOf P t st) lt := by
  intro n
  simp only [envOf]
  cases hi : cellInfo t st n.1 with
  | none => trivial
  | some i =>
    obtain ⟨q, x, m⟩ := i
    exact h _ _ _ _ _

/-- **the regime for every structural state**, from the sources -/
theorem wf_envOf (P : Params) (t : Tabs) (st : SM.St) (lt : Node → Node → Prop) (ha : AllocOK t st)
    (hs : t.slots = [])
    (hnc : ∀ v key, NsNoCatch (P.srcOf v key)) (hsc : ∀ v key, NsScoped (P.srcOf v key))
    (hr : Ranked (envOf P t st) lt) : WF (envOf P t st) lt :=
  ⟨hr, noCatch_envOf P t st hnc, scoped_envOf P t st ha hs hsc⟩

/-! ### the combinators -/

theorem nsNoCatch_readN (x : String) (k : Option Val → SProg) (onCell onNone : SProg)
    (hk : ∀ o, NsNoCatch (k o)) (hc : NsNoCatch onCell) (hn : NsNoCatch onNone) :
    NsNoCatch (SProg.readN x k onCell onNone) := by
  intro ns
  simp only [SProg.readN, resolve]
  cases ns x with
  | none => exact hn ns
  | some b =>
    cases b with
    | cell c => exact hc ns
    | ref r => exact ⟨(fun h => nomatch h), fun o => hk o ns⟩

theorem nsScoped_readN (x : String) (k : Option Val → SProg) (onCell onNone : SProg)
    (hk : ∀ o, NsScoped (k o)) (hc : NsScoped onCell) (hn : NsScoped onNone) :
    NsScoped (SProg.readN x k onCell onNone) := by
  intro ns
  simp only [SProg.readN, resolve]
  cases hx : ns x with
  | none => exact hn ns
  | some b =>
    cases b with
    | cell c => exact hc ns
    | ref r => exact ⟨fun _ => ⟨x, hx⟩, fun o => hk o ns⟩

theorem nsNoCalls_readN (x : String) (k : Option Val → SProg) (onCell onNone : SProg)
    (hk : ∀ o, NsNoCalls (k o)) (hc : NsNoCalls onCell) (hn : NsNoCalls onNone) :
    NsNoCalls (SProg.readN x k onCell onNone) := by
  intro ns lt n
  simp only [SProg.readN, resolve]
  cases ns x with
  | none => exact hn ns lt n
  | some b =>
    cases b with
    | cell c => exact hc ns lt n
    | ref r => exact fun o => hk o ns lt n

theorem nsNoCatch_ret (v : Val) : NsNoCatch (.ret v) := fun _ => trivial
theorem nsNoCatch_raise (e : Err) : NsNoCatch (.raise e) := fun _ => trivial
theorem nsScoped_ret (v : Val) : NsScoped (.ret v) := fun _ => trivial
theorem nsScoped_raise (e : Err) : NsScoped (.raise e) := fun _ => trivial
theorem nsNoCalls_ret (v : Val) : NsNoCalls (.ret v) := fun _ _ _ => trivial
theorem nsNoCalls_raise (e : Err) : NsNoCalls (.raise e) := fun _ _ _ => trivial

/-- `x(key)` with the callee's failure propagating -/
theorem nsNoCatch_callN (x : String) (key : Key) (k : Res → SProg) (onRef : Option Val → SProg) (onNone : SProg)
    (hk : ∀ r, NsNoCatch (k r)) (hfail : ∀ e ns, Fails (resolve ns (k (.err e))))
    (hr : ∀ o, NsNoCatch (onRef o)) (hn : NsNoCatch onNone) :
    NsNoCatch (SProg.callN x key k onRef onNone) := by
  intro ns
  simp only [SProg.callN, resolve]
  cases ns x with
  | none => exact hn ns
  | some b =>
    cases b with
    | cell c => exact ⟨fun e => hfail e ns, fun r => hk r ns⟩
    | ref r => exact ⟨(fun h => nomatch h), fun o => hr o ns⟩

theorem nsScoped_callN (x : String) (key : Key) (k : Res → SProg) (onRef : Option Val → SProg) (onNone : SProg)
    (hk : ∀ r, NsScoped (k r)) (hr : ∀ o, NsScoped (onRef o)) (hn : NsScoped onNone) :
    NsScoped (SProg.callN x key k onRef onNone) := by
  intro ns
  simp only [SProg.callN, resolve]
  cases hx : ns x with
  | none => exact hn ns
  | some b =>
    cases b with
    | cell c => exact fun r => hk r ns
    | ref r => exact ⟨fun _ => ⟨x, hx⟩, fun o => hr o ns⟩


/-! ### the machine's definitions are those of `SM.structEnv` (PROOF2) -/

/-- the formula of a member: the source its entry carries, resolved in the namespace of ITS space -/
theorem envOf_formula_member (P : Params) (t : Tabs) (st : SM.St) (ha : AllocOK t st) (q : Path) (n : String)
    (m : Member) (hm : st.mem .cells q n = some m) (key : Key) :
    (envOf P t st).formula (t.cid q n, key) = resolve (nsAt t st q) (P.srcOf m.payload key) := by
  have hd := cellOf_cid t q n (ha.cells q n (by rw [hm]; rfl))
  simp only [envOf, cellInfo, hd, beq_self_eq_true, if_true, hm, Option.map_some]

/-- without model-level references the namespace of the machine is `SM.nsOf` -/
theorem nsAt_eq_nsOf (t : Tabs) (st : SM.St) (hg : st.globals = []) (gid : String → RefId) (q : Path)
    (hpl : ∀ x, qualOf t q x = none) :
    nsAt t st q = SM.nsOf ⟨t.cid, t.rid, gid⟩ st q := by
  funext x
  unfold nsAt
  rw [hpl x]
  simp only
  unfold nsPlain SM.nsOf
  simp [hg]

/-- **at every member the machine's formula is the formula `SM.structEnv` assigns** (the definitions
`C03.derived_cells_formula_is_definers_source_in_sub_space` speaks about), for any decoding `D` that is
right at the member -/
theorem envOf_agrees_with_structEnv (P : Params) (t : Tabs) (st : SM.St) (ha : AllocOK t st)
    (hg : st.globals = []) (se : SEnv) (D : SM.Dec) (gid : String → RefId) (q : Path) (n : String) (m : Member)
    (hm : st.mem .cells q n = some m) (key : Key)
    (hdec : D.cellOf (t.cid q n) = (q, n)) (hnum : D.pathOf (D.num q) = q) (hpl : ∀ x, qualOf t q x = none) :
    (envOf P t st).formula (t.cid q n, key) =
      (SM.structEnv se ⟨t.cid, t.rid, gid⟩ D P.srcOf P.valOf st).toEnv.formula (t.cid q n, key) := by
  rw [envOf_formula_member P t st ha q n m hm key, nsAt_eq_nsOf t st hg gid q hpl]
  exact (SM.structEnv_formula se ⟨t.cid, t.rid, gid⟩ D P.srcOf P.valOf st q n key m hdec hnum hm).symm


/-- the machine has no model-level references: `setGlobal` / `delGlobal` are not among its operations and
no other operation touches them -/
theorem globals_step (P : Params) (w : W) (op : Op) (hi : SM.Inv w.sm) (hg : w.sm.globals = []) :
    (step P w op).sm.globals = [] := by
  cases op with
  | struct o =>
    simp only [step]
    split
    · rename_i hsup
      cases hop : w.sm.apply P.kw o with
      | none => exact hg
      | some st' =>
        simp only
        have heff := apply_spec P.kw w.sm st' (keysOK_of_inv hi) o hop
        cases o with
        | newSpace parent name bases refs => rw [heff.2.2.1, hg]
        | delSpace p => rw [heff.globals, hg]
        | newCells p name fname v => rw [heff.1.globals, hg]
        | setFormula p name v => rw [heff.1.globals, hg]
        | delCells p name => rw [heff.1.globals, hg]
        | renameCells p old new => rw [heff.1.globals, hg]
        | addBases p bs => rw [heff.globals, hg]
        | removeBases p bs => rw [heff.globals, hg]
        | setRef p name v => rw [heff.1.globals, hg]
        | delRef p name => rw [heff.1.globals, hg]
        | setGlobal name => cases hsup
        | delGlobal name => cases hsup
    · exact hg
  | eval q n key => simp only [step]; split <;> exact hg
  | setValue q n key v => simp only [step]; split <;> exact hg
  | clearAt q n key => exact hg
  | clear q n => exact hg
  | clearAll q n => exact hg

theorem globals_run (P : Params) : ∀ (ops : List Op) (w : W), SM.Inv w.sm → w.sm.globals = [] →
    (run P w ops).sm.globals = [] := by
  intro ops
  induction ops with
  | nil => intro w _ hg; exact hg
  | cons op rest ih =>
    intro w hi hg
    refine ih (step P w op) ?_ (globals_step P w op hi hg)
    cases op with
    | struct o =>
      simp only [step]
      split
      · cases hop : w.sm.apply P.kw o with
        | none => exact hi
        | some st' => exact inv_apply P.kw w.sm st' o hi hop
      · exact hi
    | eval q n key => simp only [step]; split <;> exact hi
    | setValue q n key v => simp only [step]; split <;> exact hi
    | clearAt q n key => exact hi
    | clear q n => exact hi
    | clearAll q n => exact hi

end MxModel.Edit
