import MxModel.Proofs.EditMachineRun
/-!
# How the regime `WF` is guaranteed for definitions read off a structure

`NoCatchEnv` and `Scoped` of `envOf P t st` follow, for EVERY structural state, from properties of
the sources alone (quantified over all namespaces they could be resolved in):

* `NsNoCatch p`: resolved in any namespace, `p` turns no failure into a value;
* `NsScoped p`: resolved in any namespace, `p` reads by global name only references the namespace
  binds a name to – true of every source whose by-name reads are `SProg.readN` / `SProg.callN`
  (`LOAD_GLOBAL` of a name, then use of what was found).

`Ranked` (terminating programs: every call goes to a smaller node in a fixed strict order) depends on
which cells the names are bound to, i.e. on the structure; it stays a hypothesis of the history
theorems (`Admissible`), discharged here for sources that call nothing (`NsNoCalls`).
-/
namespace MxModel.Edit
open MxModel.Exec MxModel.C02 MxModel.SM

def NsNoCatch (p : SProg) : Prop := ∀ ns : Ns, NoCatch (resolve ns p)

def NsScoped (p : SProg) : Prop :=
  ∀ ns : Ns, NameReadsIn (fun r => ∃ x, ns x = some (.ref r)) (resolve ns p)

def NsNoCalls (p : SProg) : Prop :=
  ∀ (ns : Ns) (lt : Node → Node → Prop) (n : Node), CallsBelow lt n (resolve ns p)

theorem cellInfo_some {t : Tabs} {st : SM.St} {c : CellId} {q : Path} {x : String} {m : Member}
    (h : cellInfo t st c = some (q, x, m)) :
    t.cellOf c = some (q, x) ∧ t.cid q x = c ∧ st.mem .cells q x = some m := by
  unfold cellInfo at h
  cases hd : t.cellOf c with
  | none => rw [hd] at h; cases h
  | some e =>
    obtain ⟨q', x'⟩ := e
    rw [hd] at h
    simp only at h
    split at h
    · rename_i hb
      simp only [Option.map_eq_some_iff, Prod.mk.injEq] at h
      obtain ⟨m', hm', rfl, rfl, rfl⟩ := h
      exact ⟨rfl, by simpa using hb, hm'⟩
    · cases h

theorem noCatch_envOf (P : Params) (t : Tabs) (st : SM.St) (h : ∀ v key, NsNoCatch (P.srcOf v key)) :
    NoCatchEnv (envOf P t st) := by
  intro n
  simp only [envOf]
  cases hi : cellInfo t st n.1 with
  | none => trivial
  | some i =>
    obtain ⟨q, x, m⟩ := i
    exact h _ _ _

theorem scoped_envOf (P : Params) (t : Tabs) (st : SM.St) (ha : AllocOK t st)
    (h : ∀ v key, NsScoped (P.srcOf v key)) : Scoped (envOf P t st) := by
  intro n
  show NameReadsIn _ ((envOf P t st).formula n)
  simp only [envOf]
  cases hi : cellInfo t st n.1 with
  | none => trivial
  | some i =>
    obtain ⟨q, x, m⟩ := i
    obtain ⟨_, hcid, hm⟩ := cellInfo_some hi
    refine nameReadsIn_mono ?_ _ (h m.payload n.2 (nsAt t st q))
    rintro r ⟨y, hy⟩
    unfold nsAt at hy
    split at hy
    · cases hy
    · split at hy
      · cases hy
      · split at hy
        · rename_i hr
          simp only [Option.some.injEq, Binding.ref.injEq] at hy
          subst hy
          simp only [refOf_rid t q y (ha.refs q y hr)]
          rw [← hcid]
          exact mem_cellsOf t st q x (by rw [hm]; rfl)
        · cases hy

theorem ranked_envOf_noCalls (P : Params) (t : Tabs) (st : SM.St) (lt : Node → Node → Prop)
    (h : ∀ v key, NsNoCalls (P.srcOf v key)) : Ranked (envOf P t st) lt := by
  intro n
  simp only [envOf]
  cases hi : cellInfo t st n.1 with
  | none => trivial
  | some i =>
    obtain ⟨q, x, m⟩ := i
    exact h _ _ _ _ _

/-- **the regime for every structural state**, from the sources -/
theorem wf_envOf (P : Params) (t : Tabs) (st : SM.St) (lt : Node → Node → Prop) (ha : AllocOK t st)
    (hnc : ∀ v key, NsNoCatch (P.srcOf v key)) (hsc : ∀ v key, NsScoped (P.srcOf v key))
    (hr : Ranked (envOf P t st) lt) : WF (envOf P t st) lt :=
  ⟨hr, noCatch_envOf P t st hnc, scoped_envOf P t st ha hsc⟩

/-! ### the combinators -/

theorem nsNoCatch_readN (x : String) (k : Option Val → SProg) (onCell onNone : SProg)
    (hk : ∀ o, NsNoCatch (k o)) (hc : NsNoCatch onCell) (hn : NsNoCatch onNone) :
    NsNoCatch (SProg.readN x k onCell onNone) := by
  intro ns
  simp only [SProg.readN, resolve]
  cases ns x with
  | none => exact hn ns
  | some b =>
    cases b with
    | cell c => exact hc ns
    | ref r => exact ⟨(fun h => nomatch h), fun o => hk o ns⟩

theorem nsScoped_readN (x : String) (k : Option Val → SProg) (onCell onNone : SProg)
    (hk : ∀ o, NsScoped (k o)) (hc : NsScoped onCell) (hn : NsScoped onNone) :
    NsScoped (SProg.readN x k onCell onNone) := by
  intro ns
  simp only [SProg.readN, resolve]
  cases hx : ns x with
  | none => exact hn ns
  | some b =>
    cases b with
    | cell c => exact hc ns
    | ref r => exact ⟨fun _ => ⟨x, hx⟩, fun o => hk o ns⟩

theorem nsNoCalls_readN (x : String) (k : Option Val → SProg) (onCell onNone : SProg)
    (hk : ∀ o, NsNoCalls (k o)) (hc : NsNoCalls onCell) (hn : NsNoCalls onNone) :
    NsNoCalls (SProg.readN x k onCell onNone) := by
  intro ns lt n
  simp only [SProg.readN, resolve]
  cases ns x with
  | none => exact hn ns lt n
  | some b =>
    cases b with
    | cell c => exact hc ns lt n
    | ref r => exact fun o => hk o ns lt n

theorem nsNoCatch_ret (v : Val) : NsNoCatch (.ret v) := fun _ => trivial
theorem nsNoCatch_raise (e : Err) : NsNoCatch (.raise e) := fun _ => trivial
theorem nsScoped_ret (v : Val) : NsScoped (.ret v) := fun _ => trivial
theorem nsScoped_raise (e : Err) : NsScoped (.raise e) := fun _ => trivial
theorem nsNoCalls_ret (v : Val) : NsNoCalls (.ret v) := fun _ _ _ => trivial
theorem nsNoCalls_raise (e : Err) : NsNoCalls (.raise e) := fun _ _ _ => trivial

/-- `x(key)` with the callee's failure propagating -/
theorem nsNoCatch_callN (x : String) (key : Key) (k : Res → SProg) (onRef : Option Val → SProg) (onNone : SProg)
    (hk : ∀ r, NsNoCatch (k r)) (hfail : ∀ e ns, Fails (resolve ns (k (.err e))))
    (hr : ∀ o, NsNoCatch (onRef o)) (hn : NsNoCatch onNone) :
    NsNoCatch (SProg.callN x key k onRef onNone) := by
  intro ns
  simp only [SProg.callN, resolve]
  cases ns x with
  | none => exact hn ns
  | some b =>
    cases b with
    | cell c => exact ⟨fun e => hfail e ns, fun r => hk r ns⟩
    | ref r => exact ⟨(fun h => nomatch h), fun o => hr o ns⟩

theorem nsScoped_callN (x : String) (key : Key) (k : Res → SProg) (onRef : Option Val → SProg) (onNone : SProg)
    (hk : ∀ r, NsScoped (k r)) (hr : ∀ o, NsScoped (onRef o)) (hn : NsScoped onNone) :
    NsScoped (SProg.callN x key k onRef onNone) := by
  intro ns
  simp only [SProg.callN, resolve]
  cases hx : ns x with
  | none => exact hn ns
  | some b =>
    cases b with
    | cell c => exact fun r => hk r ns
    | ref r => exact ⟨fun _ => ⟨x, hx⟩, fun o => hr o ns⟩

end MxModel.Edit
