import MxModel.Kernels.IOKeys
/-! Invariants of the registry of file objects. -/
namespace MxModel.IOKeys

structure Inv (st : St) : Prop where
  /-- `ios` is a dict: one io per key -/
  keyUnique : ∀ a ∈ st.ios, ∀ b ∈ st.ios, a.group = b.group → a.path = b.path → a = b
  idUnique : ∀ a ∈ st.ios, ∀ b ∈ st.ios, a.id = b.id → a = b
  idLt : ∀ a ∈ st.ios, a.id < st.nextId

theorem lookupKey_none {ios : List Io} {k : Option Nat × String} (h : lookupKey ios k = none) :
    ∀ a ∈ ios, ¬ (a.group = k.1 ∧ a.path = k.2) := by
  unfold lookupKey at h
  rw [List.find?_eq_none] at h
  intro a ha; simpa using h a ha

theorem lookupId_some {ios : List Io} {i : Nat} {io : Io} (h : lookupId ios i = some io) :
    io ∈ ios ∧ io.id = i := by
  unfold lookupId at h
  exact ⟨List.mem_of_find?_eq_some h, by simpa using List.find?_some h⟩

theorem getIoKey_wellKeyed (g : Option Nat) (p : String) (h : g.isSome = true ∨ isAbs p = true) (i : Nat) :
    (⟨i, (getIoKey g p).1, (getIoKey g p).2⟩ : Io).wellKeyed = true := by
  unfold getIoKey Io.wellKeyed
  by_cases ha : isAbs p = true
  · simp [ha]
  · have hg : g.isSome = true := h.resolve_right ha
    cases g with
    | none => cases hg
    | some m => simp [ha]

theorem inv_step {st : St} (h : Inv st) (op : Op) : Inv (step st op) := by
  unfold step stepR
  cases op with
  | claim m path =>
    simp only
    cases hl : lookupKey st.ios (getIoKey (some m) (norm path)) with
    | some io => exact h
    | none =>
      simp only
      have hn := lookupKey_none hl
      refine ⟨?_, ?_, ?_⟩
      · intro a ha b hb hg hp
        simp only [List.mem_append, List.mem_singleton] at ha hb
        rcases ha with ha | rfl <;> rcases hb with hb | rfl
        · exact h.keyUnique a ha b hb hg hp
        · exact absurd ⟨hg, hp⟩ (hn a ha)
        · exact absurd ⟨hg.symm, hp.symm⟩ (hn b hb)
        · rfl
      · intro a ha b hb hi
        simp only [List.mem_append, List.mem_singleton] at ha hb
        rcases ha with ha | rfl <;> rcases hb with hb | rfl
        · exact h.idUnique a ha b hb hi
        · have := h.idLt a ha; simp only at hi; omega
        · have := h.idLt b hb; simp only at hi; omega
        · rfl
      · intro a ha
        simp only [List.mem_append, List.mem_singleton] at ha
        rcases ha with ha | rfl
        · have := h.idLt a ha; show a.id < st.nextId + 1; omega
        · show st.nextId < st.nextId + 1; omega
  | move i path =>
    simp only
    cases hl : lookupId st.ios i with
    | none => exact h
    | some io =>
      simp only
      split
      · exact h
      · cases hk : lookupKey st.ios (getIoKey io.group (norm path)) with
        | some _ => exact h
        | none =>
          simp only
          have hn := lookupKey_none hk
          obtain ⟨hio, hid⟩ := lookupId_some hl
          refine ⟨?_, ?_, ?_⟩
          · intro a ha b hb hg hp
            simp only [List.mem_append, List.mem_filter, List.mem_singleton, decide_eq_true_eq] at ha hb
            rcases ha with ha | rfl <;> rcases hb with hb | rfl
            · exact h.keyUnique a ha.1 b hb.1 hg hp
            · exact absurd ⟨hg, hp⟩ (hn a ha.1)
            · exact absurd ⟨hg.symm, hp.symm⟩ (hn b hb.1)
            · rfl
          · intro a ha b hb hi
            simp only [List.mem_append, List.mem_filter, List.mem_singleton, decide_eq_true_eq] at ha hb
            rcases ha with ha | rfl <;> rcases hb with hb | rfl
            · exact h.idUnique a ha.1 b hb.1 hi
            · exact absurd hi ha.2
            · exact absurd hi.symm hb.2
            · rfl
          · intro a ha
            simp only [List.mem_append, List.mem_filter, List.mem_singleton] at ha
            rcases ha with ha | rfl
            · exact h.idLt a ha.1
            · simp only; rw [← hid]; exact h.idLt io hio
  | drop i =>
    simp only
    refine ⟨?_, ?_, ?_⟩
    · intro a ha b hb
      simp only [List.mem_filter] at ha hb
      exact h.keyUnique a ha.1 b hb.1
    · intro a ha b hb
      simp only [List.mem_filter] at ha hb
      exact h.idUnique a ha.1 b hb.1
    · intro a ha
      simp only [List.mem_filter] at ha
      exact h.idLt a ha.1

theorem inv_run : ∀ (ops : List Op) (st : St), Inv st → Inv (run st ops) := by
  intro ops
  induction ops with
  | nil => intro st h; exact h
  | cons op rest ih => intro st h; exact ih _ (inv_step h op)

theorem wellKeyed_step {st : St} (h : ∀ a ∈ st.ios, a.wellKeyed = true) (op : Op)
    (hop : absToRel st op = false) : ∀ a ∈ (step st op).ios, a.wellKeyed = true := by
  unfold step stepR
  cases op with
  | claim m path =>
    simp only
    cases hl : lookupKey st.ios (getIoKey (some m) (norm path)) with
    | some io => exact h
    | none =>
      simp only
      intro a ha
      simp only [List.mem_append, List.mem_singleton] at ha
      rcases ha with ha | rfl
      · exact h a ha
      · exact getIoKey_wellKeyed (some m) (norm path) (Or.inl rfl) _
  | move i path =>
    simp only
    cases hl : lookupId st.ios i with
    | none => exact h
    | some io =>
      simp only
      split
      · exact h
      · cases hk : lookupKey st.ios (getIoKey io.group (norm path)) with
        | some _ => exact h
        | none =>
          simp only
          intro a ha
          simp only [List.mem_append, List.mem_filter, List.mem_singleton] at ha
          rcases ha with ha | rfl
          · exact h a ha.1
          · apply getIoKey_wellKeyed
            simp only [absToRel, hl, Bool.and_eq_false_iff, Bool.not_eq_false'] at hop
            rcases hop with hop | hop
            · left
              cases hg : io.group with
              | none => rw [hg] at hop; cases hop
              | some m => rfl
            · exact Or.inr hop
  | drop i =>
    simp only
    intro a ha
    simp only [List.mem_filter] at ha
    exact h a ha.1

theorem wellKeyed_run : ∀ (ops : List Op) (st : St), (∀ a ∈ st.ios, a.wellKeyed = true) →
    NoAbsToRel st ops → ∀ a ∈ (run st ops).ios, a.wellKeyed = true := by
  intro ops
  induction ops with
  | nil => intro st h _; exact h
  | cons op rest ih => intro st h hn; exact ih _ (wellKeyed_step h op hn.1) hn.2

end MxModel.IOKeys
