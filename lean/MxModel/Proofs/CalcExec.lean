import MxModel.Proofs.CalcSteps
/-!
# Executing a plan on the abstract cache (`execute` in `Kernels/CalcSteps.lean`)

A. cache primitives (`clearAt`, `setValue`, `evalNode`) under the well-formedness invariant
   "inputs are held, and trace edges only point into held, computed (non-input) elements";
B. the three phases of one step (calc, paste, clear) as folds;
C. the step invariant and the whole run.
-/
namespace MxModel.CalcSteps

/-! ## A. primitives -/

/-- inputs are held; an edge only points into a held element that is not an input -/
structure Cache.WF (c : Cache) : Prop where
  inputsHeld : ∀ x ∈ c.inputs, x ∈ c.held
  edgeHead : ∀ e ∈ c.edges, e.2 ∈ c.held ∧ e.2 ∉ c.inputs

theorem acc_sub_reach (edges : List (Node × Node)) (fuel : Nat) (acc fr : List Node) {x : Node}
    (h : x ∈ acc) : x ∈ reach edges fuel acc fr := by
  induction fuel generalizing acc fr with
  | zero => simpa [reach] using h
  | succ fuel ih =>
    unfold reach
    simp only
    split
    · exact h
    · exact ih _ _ (List.mem_append_left _ h)

theorem mem_reach (edges : List (Node × Node)) (fuel : Nat) (acc fr : List Node) {x : Node}
    (h : x ∈ reach edges fuel acc fr) : x ∈ acc ∨ ∃ e ∈ edges, e.2 = x := by
  induction fuel generalizing acc fr with
  | zero => left; simpa [reach] using h
  | succ fuel ih =>
    unfold reach at h
    simp only at h
    split at h
    · exact Or.inl h
    · rcases ih _ _ h with h | h
      · rcases List.mem_append.mp h with h | h
        · exact Or.inl h
        · right
          rw [List.mem_eraseDups, List.mem_map] at h
          obtain ⟨e, he, rfl⟩ := h
          exact ⟨e, (List.mem_filter.mp he).1, rfl⟩
      · exact Or.inr h

theorem self_mem_withDescs (edges : List (Node × Node)) (n : Node) : n ∈ withDescs edges n :=
  acc_sub_reach edges _ _ _ (by simp)

theorem mem_withDescs {edges : List (Node × Node)} {n x : Node} (h : x ∈ withDescs edges n) :
    x = n ∨ ∃ e ∈ edges, e.2 = x := by
  rcases mem_reach edges _ _ _ h with h | h
  · left; simpa using h
  · exact Or.inr h

/-- what `clearAt` does, as far as the run needs it -/
structure ClearSpec (n : Node) (c c' : Cache) : Prop where
  wf : c'.WF
  inputs : ∀ x, x ∈ c'.inputs ↔ x ∈ c.inputs ∧ x ≠ n
  held : ∀ x, x ∈ c'.held → x ∈ c.held ∧ x ≠ n
  log : c'.log = c.log
  edges : ∀ e ∈ c'.edges, e ∈ c.edges

theorem clearAt_spec (n : Node) (c : Cache) (h : c.WF) : ClearSpec n c (clearAt n c) := by
  unfold clearAt
  by_cases hn : n ∈ c.held
  · simp only [hn, if_true]
    have hself := self_mem_withDescs c.edges n
    have hin : ∀ x, x ∈ c.inputs → x ∈ withDescs c.edges n → x = n := by
      intro x hx hr
      rcases mem_withDescs hr with h1 | ⟨e, he, rfl⟩
      · exact h1
      · exact ((h.edgeHead e he).2 hx).elim
    refine ⟨⟨?_, ?_⟩, ?_, ?_, rfl, ?_⟩
    · intro x hx
      simp only [List.mem_filter, Bool.not_eq_true', decide_eq_false_iff_not] at hx ⊢
      exact ⟨h.inputsHeld x hx.1, hx.2⟩
    · intro e he
      simp only [List.mem_filter, Bool.and_eq_true, Bool.not_eq_true',
        decide_eq_false_iff_not] at he ⊢
      exact ⟨⟨(h.edgeHead e he.1).1, he.2.2⟩, fun hc => (h.edgeHead e he.1).2 hc.1⟩
    · intro x
      simp only [List.mem_filter, Bool.not_eq_true', decide_eq_false_iff_not]
      constructor
      · rintro ⟨hx, hr⟩
        exact ⟨hx, fun e => hr (e ▸ hself)⟩
      · rintro ⟨hx, hne⟩
        exact ⟨hx, fun hr => hne (hin x hx hr)⟩
    · intro x hx
      simp only [List.mem_filter, Bool.not_eq_true', decide_eq_false_iff_not] at hx
      exact ⟨hx.1, fun e => hx.2 (e ▸ hself)⟩
    · intro e he
      exact (List.mem_filter.mp he).1
  · simp only [hn, if_false]
    refine ⟨h, ?_, ?_, rfl, fun e he => he⟩
    · intro x
      constructor
      · intro hx; exact ⟨hx, fun e => hn (e ▸ h.inputsHeld x hx)⟩
      · intro hx; exact hx.1
    · intro x hx; exact ⟨hx, fun e => hn (e ▸ hx)⟩

/-- what `setValue` does -/
structure PasteSpec (n : Node) (c c' : Cache) : Prop where
  wf : c'.WF
  inputs : ∀ x, x ∈ c'.inputs ↔ x ∈ c.inputs ∨ x = n
  held : ∀ x, x ∈ c'.held → x ∈ c.held ∨ x = n
  log : c'.log = c.log
  edges : ∀ e ∈ c'.edges, e ∈ c.edges

theorem setValue_spec (n : Node) (c : Cache) (h : c.WF) : PasteSpec n c (setValue n c) := by
  have s := clearAt_spec n c h
  unfold setValue
  refine ⟨⟨?_, ?_⟩, ?_, ?_, ?_, ?_⟩
  · intro x hx
    simp only [List.mem_append, List.mem_singleton] at hx ⊢
    rcases hx with hx | hx
    · exact Or.inl (s.wf.inputsHeld x hx)
    · exact Or.inr hx
  · intro e he
    have := s.wf.edgeHead e he
    simp only [List.mem_append, List.mem_singleton]
    refine ⟨Or.inl this.1, ?_⟩
    rintro (hc | hc)
    · exact this.2 hc
    · exact (s.held _ this.1).2 hc
  · intro x
    simp only [List.mem_append, List.mem_singleton, s.inputs]
    constructor
    · rintro (⟨hx, _⟩ | hx)
      · exact Or.inl hx
      · exact Or.inr hx
    · rintro (hx | hx)
      · by_cases e : x = n
        · exact Or.inr e
        · exact Or.inl ⟨hx, e⟩
      · exact Or.inr hx
  · intro x hx
    simp only [List.mem_append, List.mem_singleton] at hx
    rcases hx with hx | hx
    · exact Or.inl (s.held x hx).1
    · exact Or.inr hx
  · exact s.log
  · intro e he; exact s.edges e he

theorem evalNode_held (preds : Node → List Node) (fuel : Nat) (n : Node) (c : Cache)
    (h : n ∈ c.held) : evalNode preds fuel n c = c := by
  cases fuel with
  | zero => rfl
  | succ fuel => simp [evalNode, h]

theorem evalNode_ready_fold (preds : Node → List Node) (fuel : Nat) (n : Node) (ps : List Node)
    (c : Cache) (h : ∀ p ∈ ps, p ∈ c.held) :
    ps.foldl (fun c p => (evalNode preds fuel p c).addEdge p n) c
      = { c with edges := c.edges ++ ps.map (fun p => (p, n)) } := by
  induction ps generalizing c with
  | nil => simp
  | cons p ps ih =>
    simp only [List.foldl_cons]
    rw [evalNode_held preds fuel p c (h p (by simp))]
    rw [ih _ (fun q hq => by
      have := h q (List.mem_cons_of_mem _ hq); simpa [Cache.addEdge] using this)]
    simp [Cache.addEdge]

/-- evaluating an element that is not held while everything it calls is held: its formula runs
once, nothing else runs -/
theorem evalNode_ready (preds : Node → List Node) (fuel : Nat) (n : Node) (c : Cache)
    (hn : n ∉ c.held) (hp : ∀ p ∈ preds n, p ∈ c.held) :
    evalNode preds (fuel + 1) n c =
      { held := c.held ++ [n], inputs := c.inputs,
        edges := c.edges ++ (preds n).map (fun p => (p, n)), log := c.log ++ [n] } := by
  have hf := evalNode_ready_fold preds fuel n (preds n) (c.enter n) (by simpa [Cache.enter] using hp)
  unfold evalNode
  rw [if_neg hn, hf]
  simp [Cache.enter, Cache.store]

/-! ## B. the phases of one step -/

theorem eval_all_held (preds : Node → List Node) (fuel : Nat) (ns : List Node) (c : Cache)
    (h : ∀ n ∈ ns, n ∈ c.held) : ns.foldl (fun c n => evalNode preds fuel n c) c = c := by
  induction ns with
  | nil => rfl
  | cons n ns ih =>
    simp only [List.foldl_cons]
    rw [evalNode_held preds fuel n c (h n (by simp))]
    exact ih (fun m hm => h m (List.mem_cons_of_mem _ hm))

theorem paste_fold (ns : List Node) (c : Cache) (h : c.WF) :
    let c' := ns.foldl (fun c n => setValue n c) c
    c'.WF ∧ (∀ x, x ∈ c'.inputs ↔ x ∈ c.inputs ∨ x ∈ ns) ∧
      (∀ x, x ∈ c'.held → x ∈ c.held ∨ x ∈ ns) ∧ c'.log = c.log ∧ (∀ e ∈ c'.edges, e ∈ c.edges) := by
  induction ns generalizing c with
  | nil => simp [h]
  | cons n ns ih =>
    have s := setValue_spec n c h
    obtain ⟨w, hi, hh, hl, he⟩ := ih (setValue n c) s.wf
    simp only [List.foldl_cons]
    refine ⟨w, ?_, ?_, ?_, ?_⟩
    · intro x; rw [hi x, s.inputs x]; simp only [List.mem_cons]; grind
    · intro x hx
      rcases hh x hx with hx | hx
      · rcases s.held x hx with hx | hx
        · exact Or.inl hx
        · exact Or.inr (by simp [hx])
      · exact Or.inr (List.mem_cons_of_mem _ hx)
    · rw [hl, s.log]
    · intro e hm; exact s.edges e (he e hm)

theorem clear_fold (ns : List Node) (c : Cache) (h : c.WF) :
    let c' := ns.foldl (fun c n => clearAt n c) c
    c'.WF ∧ (∀ x, x ∈ c'.inputs ↔ x ∈ c.inputs ∧ x ∉ ns) ∧
      (∀ x, x ∈ c'.held → x ∈ c.held ∧ x ∉ ns) ∧ c'.log = c.log ∧ (∀ e ∈ c'.edges, e ∈ c.edges) := by
  induction ns generalizing c with
  | nil => simp [h]
  | cons n ns ih =>
    have s := clearAt_spec n c h
    obtain ⟨w, hi, hh, hl, he⟩ := ih (clearAt n c) s.wf
    simp only [List.foldl_cons]
    refine ⟨w, ?_, ?_, ?_, ?_⟩
    · intro x; rw [hi x, s.inputs x]; simp only [List.mem_cons]; grind
    · intro x hx
      have h1 := hh x hx
      have h2 := s.held x h1.1
      refine ⟨h2.1, ?_⟩
      simp only [List.mem_cons, not_or]
      exact ⟨h2.2, h1.2⟩
    · rw [hl, s.log]
    · intro e hm; exact s.edges e (he e hm)

/-! ## C. the step invariant -/

theorem isTopo_of_append {succs : Node → List Node} {a b : List Node}
    (h : isTopo succs (a ++ b) = true) : isTopo succs b = true := by
  induction a with
  | nil => exact h
  | cons x a ih => exact ih (isTopo_cons.mp h).2

/-- in a topological order of distinct nodes every predecessor of `n` stands before `n` -/
theorem isTopo_pred_strict {succs : Node → List Node} {pre post : List Node} {n p : Node}
    (h : isTopo succs (pre ++ n :: post) = true) (hd : (pre ++ n :: post).Nodup)
    (hp : p ∈ pre ++ n :: post) (hs : n ∈ succs p) : p ∈ pre := by
  have hn : n ∉ post := by
    have := (List.nodup_append.mp hd).2.1
    exact (List.nodup_cons.mp this).1
  rcases List.mem_append.mp hp with hp | hp
  · exact hp
  · rcases List.mem_cons.mp hp with rfl | hp
    · exact (hn ((isTopo_cons.mp (isTopo_of_append h)).1 _ hs)).elim
    · have h2 : isTopo succs post = true := (isTopo_cons.mp (isTopo_of_append h)).2
      exact (hn (isTopo_closed h2 hp hs)).elim

theorem hasSuccOutside_mono {succs : Node → List Node} {a b : List Node} {n : Node}
    (hab : ∀ x ∈ a, x ∈ b) (h : hasSuccOutside succs b n = true) :
    hasSuccOutside succs a n = true := by
  obtain ⟨s, hs, hn⟩ := hasSuccOutside_true.mp h
  exact hasSuccOutside_true.mpr ⟨s, hs, fun hc => hn (hab s hc)⟩

section run
variable (ordered : List Node) (succs : Node → List Node) (targets : List Node) (size : Nat)

/-- an element of an earlier block that is not a target and still has a successor outside the
blocks done so far is in `pasted` -/
theorem pastedAt_of_pending (k : Nat) {n : Node} (hn : n ∈ ordered.take (k * size))
    (hnt : n ∉ targets) (hs : hasSuccOutside succs (ordered.take (k * size)) n = true) :
    n ∈ pastedAt ordered succs targets size k := by
  induction k with
  | zero => simp at hn
  | succ k ih =>
    have e := accum_succ ordered size k
    rw [accum_eq_take_succ] at e
    simp only [pastedAt]
    rw [stepOut_pasted, List.mem_append]
    rw [e] at hn
    rcases List.mem_append.mp hn with hn | hn
    · left
      have h1 : hasSuccOutside succs (ordered.take (k * size)) n = true :=
        hasSuccOutside_mono (fun x hx => mem_take_mono (Nat.mul_le_mul_right size (Nat.le_succ k)) hx) hs
      exact List.mem_filter.mpr ⟨ih hn h1, by rw [accum_eq_take_succ]; exact hs⟩
    · right
      have h1 : hasSuccOutside succs (curBlock ordered size k) n = true :=
        hasSuccOutside_mono (fun x hx => by rw [e]; exact List.mem_append_right _ hx) hs
      exact List.mem_filter.mpr ⟨hn, by simp [hnt, h1]⟩

variable (preds : Node → List Node)

/-- the three actions of one step -/
def execStep (fuel : Nat) (o : StepOut) (c : Cache) : Cache :=
  execAction preds fuel (execAction preds fuel (execAction preds fuel c (.doCalc o.block))
    (.doPaste o.paste)) (.doClear o.clear)

theorem execute_flatMap (fuel : Nat) (l : List StepOut) (c : Cache) :
    execute preds fuel (l.flatMap StepOut.actions) c = l.foldl (fun c o => execStep preds fuel o c) c := by
  unfold execute
  rw [List.foldl_flatMap]
  rfl

/-- what is held between two steps -/
def heldAt (k : Nat) (x : Node) : Prop :=
  x ∈ pastedAt ordered succs targets size k ∨ (x ∈ targets ∧ x ∈ ordered.take (k * size))

/-- the state between steps `k-1` and `k` of a run that started from the cache `c0` (which holds
user inputs only): `c0`'s inputs, the planned elements that are pasted, nothing else -/
structure SInv (c0 : Cache) (k : Nat) (c : Cache) : Prop where
  held : ∀ x, x ∈ c.held ↔ heldAt ordered succs targets size k x ∨ x ∈ c0.held
  inputs : ∀ x, x ∈ c.inputs ↔ x ∈ c.held
  edges : c.edges = []
  log : c.log = c0.log ++ ordered.take (k * size)

theorem heldAt_sub {k : Nat} {x : Node} (h : heldAt ordered succs targets size k x) :
    x ∈ ordered.take (k * size) := by
  rcases h with h | h
  · exact (pastedAt_sub ordered succs targets size k h).1
  · exact h.2

variable (c0 : Cache) (ht : isTopo succs ordered = true) (hd : ordered.Nodup)
  (h0d : ∀ x ∈ c0.held, x ∉ ordered)
  (hp : ∀ n ∈ ordered, ∀ p ∈ preds n, (p ∈ ordered ∧ n ∈ succs p) ∨ p ∈ c0.held)
include ht hd h0d hp

/-- calc phase: the elements of the block are computed one after the other, each exactly once,
and nothing else is computed, because everything an element calls is held when its turn comes -/
theorem calc_phase (fuel k : Nat) (c : Cache) (inv : SInv ordered succs targets size c0 k c)
    (rest done : List Node) (c' : Cache)
    (hB : curBlock ordered size k = done ++ rest)
    (hh : c'.held = c.held ++ done) (hi : c'.inputs = c.inputs) (hl : c'.log = c.log ++ done)
    (he : ∀ e ∈ c'.edges, e.2 ∈ done) :
    let r := rest.foldl (fun c n => evalNode preds (fuel + 1) n c) c'
    r.held = c.held ++ curBlock ordered size k ∧ r.inputs = c.inputs ∧
      r.log = c.log ++ curBlock ordered size k ∧ ∀ e ∈ r.edges, e.2 ∈ curBlock ordered size k := by
  induction rest generalizing done c' with
  | nil =>
    simp only [List.append_nil] at hB
    simp only [List.foldl_nil, hB]
    exact ⟨hh, hi, hl, he⟩
  | cons n rest ih =>
    -- ordered = (T ++ done) ++ n :: (rest ++ D)
    have eo : ordered = (ordered.take (k * size) ++ done) ++ n :: (rest ++ ordered.drop ((k + 1) * size)) := by
      have e1 := (List.take_append_drop ((k + 1) * size) ordered).symm
      have e2 := accum_succ ordered size k
      rw [accum_eq_take_succ] at e2
      rw [e2, hB] at e1
      simpa [List.append_assoc] using e1
    have hd' := hd
    rw [eo] at hd'
    have ht' := ht
    rw [eo] at ht'
    have hnpre : n ∉ ordered.take (k * size) ++ done := by
      have := (List.nodup_append.mp hd').2.2
      intro hc
      exact this n hc n (by simp) rfl
    have hheld_sub : ∀ x, x ∈ c.held → x ∈ ordered.take (k * size) ∨ x ∈ c0.held :=
      fun x hx => ((inv.held x).mp hx).imp (heldAt_sub ordered succs targets size) id
    have hnB : n ∈ curBlock ordered size k := by rw [hB]; simp
    have hnord : n ∈ ordered := mem_of_mem_block hnB
    have hn : n ∉ c'.held := by
      rw [hh]
      intro hc
      rcases List.mem_append.mp hc with hc | hc
      · rcases hheld_sub n hc with hc | hc
        · exact hnpre (List.mem_append_left _ hc)
        · exact h0d n hc hnord
      · exact hnpre (List.mem_append_right _ hc)
    have hpreds : ∀ p ∈ preds n, p ∈ c'.held := by
      intro p hpm
      rcases hp n hnord p hpm with ⟨hpo, hsucc⟩ | hp0
      case inr =>
        rw [hh]; exact List.mem_append_left _ ((inv.held p).mpr (Or.inr hp0))
      have hpo' := hpo
      rw [eo] at hpo'
      have hpre := isTopo_pred_strict ht' hd' hpo' hsucc
      rw [hh]
      rcases List.mem_append.mp hpre with hpt | hpd
      · apply List.mem_append_left
        rw [inv.held]
        left
        by_cases hpt' : p ∈ targets
        · exact Or.inr ⟨hpt', hpt⟩
        · left
          apply pastedAt_of_pending ordered succs targets size k hpt hpt'
          exact hasSuccOutside_true.mpr ⟨n, hsucc, fun hc => hnpre (List.mem_append_left _ hc)⟩
      · exact List.mem_append_right _ hpd
    simp only [List.foldl_cons]
    rw [evalNode_ready preds fuel n c' hn hpreds]
    apply ih (done ++ [n])
    · rw [hB]; simp
    · simp [hh]
    · exact hi
    · simp [hl]
    · intro e hem
      simp only [List.mem_append, List.mem_map, List.mem_singleton] at hem ⊢
      rcases hem with hem | ⟨p, _, rfl⟩
      · exact Or.inl (he e hem)
      · exact Or.inr rfl

/-- one step of the plan takes the state between steps `k` and `k+1` -/
theorem step_inv (fuel k : Nat) (c : Cache) (inv : SInv ordered succs targets size c0 k c) :
    SInv ordered succs targets size c0 (k + 1)
      (execStep preds (fuel + 1) (stepAt ordered succs targets size k) c) := by
  have hheld_sub : ∀ x, x ∈ c.held → x ∈ ordered.take (k * size) ∨ x ∈ c0.held :=
    fun x hx => ((inv.held x).mp hx).imp (heldAt_sub ordered succs targets size) id
  have eT := accum_succ ordered size k
  rw [accum_eq_take_succ] at eT
  -- the block is disjoint from what came before
  have hdisj : ∀ x, x ∈ ordered.take (k * size) → x ∈ curBlock ordered size k → False :=
    fun x h1 h2 => nodup_take_drop_disjoint hd _ h1 (block_sub_drop h2)
  -- calc
  obtain ⟨h1h, h1i, h1l, h1e⟩ := calc_phase ordered succs targets size preds c0 ht hd h0d hp fuel k c inv
    (curBlock ordered size k) [] c (by simp) (by simp) rfl (by simp) (by simp [inv.edges])
  generalize hc1 : (curBlock ordered size k).foldl (fun c n => evalNode preds (fuel + 1) n c) c = c1
    at h1h h1i h1l h1e
  have wf1 : c1.WF := by
    refine ⟨?_, ?_⟩
    · intro x hx
      rw [h1i, inv.inputs] at hx
      rw [h1h]; exact List.mem_append_left _ hx
    · intro e hem
      have hb := h1e e hem
      refine ⟨by rw [h1h]; exact List.mem_append_right _ hb, ?_⟩
      rw [h1i, inv.inputs]
      intro hc
      rcases hheld_sub _ hc with hc | hc
      · exact hdisj _ hc hb
      · exact h0d _ hc (mem_of_mem_block hb)
  -- paste
  have hpaste := stepOut_paste ordered succs targets size k (pastedAt ordered succs targets size k)
  have hclear := stepOut_clear ordered succs targets size k (pastedAt ordered succs targets size k)
  have hpasted := stepOut_pasted ordered succs targets size k (pastedAt ordered succs targets size k)
  have hpaste_sub : ∀ x ∈ (stepAt ordered succs targets size k).paste, x ∈ c1.held := by
    intro x hx
    unfold stepAt at hx
    rw [hpaste, List.mem_reverse] at hx
    rw [h1h]; exact List.mem_append_right _ (List.mem_filter.mp hx).1
  obtain ⟨wf2, h2i, h2h, h2l, h2e⟩ := paste_fold (stepAt ordered succs targets size k).paste c1 wf1
  obtain ⟨wf3, h3i, h3h, h3l, h3e⟩ := clear_fold (stepAt ordered succs targets size k).clear _ wf2
  have hstep : execStep preds (fuel + 1) (stepAt ordered succs targets size k) c =
      (stepAt ordered succs targets size k).clear.foldl (fun c n => clearAt n c)
        ((stepAt ordered succs targets size k).paste.foldl (fun c n => setValue n c) c1) := by
    unfold execStep
    simp only [execAction]
    have hb : (stepAt ordered succs targets size k).block = curBlock ordered size k := rfl
    rw [hb, hc1, eval_all_held preds (fuel + 1) _ c1 hpaste_sub]
  rw [hstep]
  generalize hc3 : (stepAt ordered succs targets size k).clear.foldl (fun c n => clearAt n c)
    ((stepAt ordered succs targets size k).paste.foldl (fun c n => setValue n c) c1) = c3
    at wf3 h3i h3h h3l h3e
  generalize hc2 : (stepAt ordered succs targets size k).paste.foldl (fun c n => setValue n c) c1 = c2
    at wf2 h2i h2h h2l h2e h3i h3h h3l h3e
  -- membership in the three lists of the step
  have mem_paste : ∀ x, x ∈ (stepAt ordered succs targets size k).paste ↔
      x ∈ curBlock ordered size k ∧ pasteHere succs targets (curBlock ordered size k) x = true := by
    intro x; unfold stepAt; rw [hpaste, List.mem_reverse, List.mem_filter]
  have mem_clear : ∀ x, x ∈ (stepAt ordered succs targets size k).clear ↔
      (x ∈ curBlock ordered size k ∧ pasteHere succs targets (curBlock ordered size k) x = false) ∨
      (x ∈ pastedAt ordered succs targets size k ∧
        hasSuccOutside succs (accumNodes ordered size k) x = false) := by
    intro x; unfold stepAt; rw [hclear, List.mem_append, List.mem_filter, List.mem_filter]
    simp
  have mem_next : ∀ x, x ∈ pastedAt ordered succs targets size (k + 1) ↔
      (x ∈ pastedAt ordered succs targets size k ∧
        hasSuccOutside succs (accumNodes ordered size k) x = true) ∨
      (x ∈ curBlock ordered size k ∧ x ∉ targets ∧
        hasSuccOutside succs (curBlock ordered size k) x = true) := by
    intro x
    simp only [pastedAt]
    rw [hpasted, List.mem_append, List.mem_filter, List.mem_filter]
    simp
  have hP : ∀ x, x ∈ pastedAt ordered succs targets size k →
      x ∈ ordered.take (k * size) ∧ x ∉ targets :=
    fun x hx => pastedAt_sub ordered succs targets size k hx
  -- S1 / S2
  have S1 : ∀ x, (heldAt ordered succs targets size k x ∨ x ∈ curBlock ordered size k) →
      x ∉ (stepAt ordered succs targets size k).clear → heldAt ordered succs targets size (k + 1) x := by
    intro x hx hnc
    rw [mem_clear] at hnc
    unfold heldAt
    rw [mem_next, eT, List.mem_append]
    rcases hx with (hx | ⟨hxt, hxT⟩) | hx
    · left; left
      refine ⟨hx, ?_⟩
      cases hk : hasSuccOutside succs (accumNodes ordered size k) x with
      | true => rfl
      | false => exact (hnc (Or.inr ⟨hx, hk⟩)).elim
    · exact Or.inr ⟨hxt, Or.inl hxT⟩
    · have hph : pasteHere succs targets (curBlock ordered size k) x = true := by
        cases hk : pasteHere succs targets (curBlock ordered size k) x with
        | true => rfl
        | false => exact (hnc (Or.inl ⟨hx, hk⟩)).elim
      by_cases hxt : x ∈ targets
      · exact Or.inr ⟨hxt, Or.inr hx⟩
      · left; right
        refine ⟨hx, hxt, ?_⟩
        simpa [pasteHere, hxt] using hph
  have S2 : ∀ x, heldAt ordered succs targets size (k + 1) x →
      (heldAt ordered succs targets size k x ∨ x ∈ (stepAt ordered succs targets size k).paste) ∧
      x ∉ (stepAt ordered succs targets size k).clear := by
    intro x hx
    unfold heldAt at hx
    rw [mem_next, eT, List.mem_append] at hx
    rw [mem_clear, mem_paste]
    rcases hx with (⟨hxP, hk⟩ | ⟨hxB, hxt, hs⟩) | ⟨hxt, hxT | hxB⟩
    · refine ⟨Or.inl (Or.inl hxP), ?_⟩
      rintro (⟨hb, _⟩ | ⟨_, hk'⟩)
      · exact hdisj x (hP x hxP).1 hb
      · rw [hk] at hk'; cases hk'
    · have hph : pasteHere succs targets (curBlock ordered size k) x = true := by
        simp [pasteHere, hs]
      refine ⟨Or.inr ⟨hxB, hph⟩, ?_⟩
      rintro (⟨_, hk'⟩ | ⟨hxP, _⟩)
      · rw [hph] at hk'; cases hk'
      · exact hdisj x (hP x hxP).1 hxB
    · refine ⟨Or.inl (Or.inr ⟨hxt, hxT⟩), ?_⟩
      rintro (⟨hb, _⟩ | ⟨hxP, _⟩)
      · exact hdisj x hxT hb
      · exact (hP x hxP).2 hxt
    · have hph : pasteHere succs targets (curBlock ordered size k) x = true := by
        simp [pasteHere, hxt]
      refine ⟨Or.inr ⟨hxB, hph⟩, ?_⟩
      rintro (⟨_, hk'⟩ | ⟨hxP, _⟩)
      · rw [hph] at hk'; cases hk'
      · exact (hP x hxP).2 hxt
  have clear_planned : ∀ x, x ∈ (stepAt ordered succs targets size k).clear → x ∈ ordered := by
    intro x hx
    rcases (mem_clear x).mp hx with ⟨hb, _⟩ | ⟨hP', _⟩
    · exact mem_of_mem_block hb
    · exact List.mem_of_mem_take (hP x hP').1
  have held_to : ∀ x, x ∈ c3.held → heldAt ordered succs targets size (k + 1) x ∨ x ∈ c0.held := by
    intro x hx
    obtain ⟨h2, hnc⟩ := h3h x hx
    rcases h2h x h2 with h1 | hpm
    · rw [h1h] at h1
      rcases List.mem_append.mp h1 with h1 | h1
      · rcases (inv.held x).mp h1 with h1 | h1
        · exact Or.inl (S1 x (Or.inl h1) hnc)
        · exact Or.inr h1
      · exact Or.inl (S1 x (Or.inr h1) hnc)
    · exact Or.inl (S1 x (Or.inr ((mem_paste x).mp hpm).1) hnc)
  have to_inputs : ∀ x, (heldAt ordered succs targets size (k + 1) x ∨ x ∈ c0.held) → x ∈ c3.inputs := by
    intro x hx
    rw [h3i, h2i]
    rcases hx with hx | hx
    · obtain ⟨h1, hnc⟩ := S2 x hx
      refine ⟨?_, hnc⟩
      rcases h1 with h1 | h1
      · left; rw [h1i, inv.inputs, inv.held]; exact Or.inl h1
      · exact Or.inr h1
    · refine ⟨?_, fun hcl => h0d x hx (clear_planned x hcl)⟩
      left; rw [h1i, inv.inputs, inv.held]; exact Or.inr hx
  refine ⟨?_, ?_, ?_, ?_⟩
  · intro x
    exact ⟨held_to x, fun hx => wf3.inputsHeld x (to_inputs x hx)⟩
  · intro x
    exact ⟨wf3.inputsHeld x, fun hx => to_inputs x (held_to x hx)⟩
  · rw [List.eq_nil_iff_forall_not_mem]
    intro e hem
    have := wf3.edgeHead e hem
    exact this.2 (to_inputs _ (held_to _ this.1))
  · rw [h3l, h2l, h1l, inv.log, eT, List.append_assoc]

end run

/-! ## D. `generate_actions`: tracing the targets and clearing what was calculated -/

/-- `WF` while the formulas of `pend` are running: edges may already point into them -/
structure Cache.WFp (pend : List Node) (c : Cache) : Prop where
  inputsHeld : ∀ x ∈ c.inputs, x ∈ c.held
  edgeHead : ∀ e ∈ c.edges, (e.2 ∈ c.held ∨ e.2 ∈ pend) ∧ e.2 ∉ c.inputs

theorem Cache.WFp.toWF {c : Cache} (h : c.WFp []) : c.WF :=
  ⟨h.inputsHeld, fun e he => ⟨by simpa using (h.edgeHead e he).1, (h.edgeHead e he).2⟩⟩

theorem Cache.WF.toWFp {c : Cache} (h : c.WF) : c.WFp [] :=
  ⟨h.inputsHeld, fun e he => ⟨Or.inl (h.edgeHead e he).1, (h.edgeHead e he).2⟩⟩

/-- evaluation only adds: inputs stay, held values stay, every new held value was logged, and
what is logged was not held before -/
structure Grows (c c' : Cache) : Prop where
  inputs : c'.inputs = c.inputs
  new : ∃ new, c'.log = c.log ++ new ∧ (∀ x ∈ c.held, x ∈ c'.held) ∧
    (∀ x ∈ c'.held, x ∈ c.held ∨ x ∈ new) ∧ ∀ x ∈ new, x ∉ c.held

theorem Grows.refl (c : Cache) : Grows c c :=
  ⟨rfl, [], by simp, fun _ h => h, fun _ h => Or.inl h, by simp⟩

theorem Grows.trans {a b c : Cache} (h1 : Grows a b) (h2 : Grows b c) : Grows a c := by
  obtain ⟨i1, n1, l1, s1, g1, d1⟩ := h1
  obtain ⟨i2, n2, l2, s2, g2, d2⟩ := h2
  refine ⟨by rw [i2, i1], n1 ++ n2, by rw [l2, l1, List.append_assoc], fun x hx => s2 x (s1 x hx), ?_, ?_⟩
  · intro x hx
    rcases g2 x hx with h | h
    · rcases g1 x h with h | h
      · exact Or.inl h
      · exact Or.inr (List.mem_append_left _ h)
    · exact Or.inr (List.mem_append_right _ h)
  · intro x hx
    rcases List.mem_append.mp hx with h | h
    · exact d1 x h
    · exact fun hc => d2 x h (s1 x hc)

theorem evalNode_spec (preds : Node → List Node) (fuel : Nat) :
    ∀ (n : Node) (c : Cache) (pend : List Node), c.WFp pend →
      (evalNode preds fuel n c).WFp pend ∧ Grows c (evalNode preds fuel n c) := by
  induction fuel with
  | zero => intro n c pend h; exact ⟨h, Grows.refl c⟩
  | succ fuel ih =>
    intro n c pend h
    unfold evalNode
    by_cases hn : n ∈ c.held
    · rw [if_pos hn]; exact ⟨h, Grows.refl c⟩
    · rw [if_neg hn]
      -- the calls made by the formula of `n`
      have fold : ∀ (ps : List Node) (c0 : Cache), c0.WFp (n :: pend) → n ∉ c0.inputs →
          (ps.foldl (fun c p => (evalNode preds fuel p c).addEdge p n) c0).WFp (n :: pend) ∧
          Grows c0 (ps.foldl (fun c p => (evalNode preds fuel p c).addEdge p n) c0) := by
        intro ps
        induction ps with
        | nil => intro c0 h0 _; exact ⟨h0, Grows.refl c0⟩
        | cons p ps ihp =>
          intro c0 h0 hni
          simp only [List.foldl_cons]
          obtain ⟨w1, g1⟩ := ih p c0 (n :: pend) h0
          have hni1 : n ∉ (evalNode preds fuel p c0).inputs := by rw [g1.inputs]; exact hni
          have w2 : ((evalNode preds fuel p c0).addEdge p n).WFp (n :: pend) := by
            refine ⟨w1.inputsHeld, ?_⟩
            intro e he
            simp only [Cache.addEdge, List.mem_append, List.mem_singleton] at he
            rcases he with he | rfl
            · exact w1.edgeHead e he
            · exact ⟨Or.inr (by simp), hni1⟩
          have g2 : Grows c0 ((evalNode preds fuel p c0).addEdge p n) :=
            ⟨g1.inputs, g1.new⟩
          obtain ⟨w3, g3⟩ := ihp _ w2 hni1
          exact ⟨w3, g2.trans g3⟩
      have h0 : (c.enter n).WFp (n :: pend) :=
        ⟨h.inputsHeld, fun e he => ⟨(h.edgeHead e he).1.elim Or.inl (fun hp => Or.inr (List.mem_cons_of_mem _ hp)),
          (h.edgeHead e he).2⟩⟩
      have hni : n ∉ (c.enter n).inputs := fun hc => hn (h.inputsHeld n hc)
      obtain ⟨wf, gf⟩ := fold (preds n) (c.enter n) h0 hni
      generalize (preds n).foldl (fun c p => (evalNode preds fuel p c).addEdge p n) (c.enter n) = cf
        at wf gf
      obtain ⟨gi, new, gl, gs, gg, gd⟩ := gf
      refine ⟨⟨?_, ?_⟩, ⟨gi, n :: new, ?_, ?_, ?_, ?_⟩⟩
      · intro x hx
        exact List.mem_append_left _ (wf.inputsHeld x hx)
      · intro e he
        have := wf.edgeHead e he
        refine ⟨?_, this.2⟩
        simp only [Cache.store, List.mem_append, List.mem_singleton]
        rcases this.1 with h1 | h1
        · exact Or.inl (Or.inl h1)
        · rcases List.mem_cons.mp h1 with h1 | h1
          · exact Or.inl (Or.inr h1)
          · exact Or.inr h1
      · simp only [Cache.store, gl, Cache.enter, List.append_assoc, List.singleton_append]
      · intro x hx
        exact List.mem_append_left _ (gs x hx)
      · intro x hx
        simp only [Cache.store, List.mem_append, List.mem_singleton] at hx
        rcases hx with hx | hx
        · rcases gg x hx with h1 | h1
          · exact Or.inl h1
          · exact Or.inr (List.mem_cons_of_mem _ h1)
        · exact Or.inr (by simp [hx])
      · intro x hx
        rcases List.mem_cons.mp hx with rfl | hx
        · exact hn
        · exact gd x hx

theorem traceTargets_spec (preds : Node → List Node) (fuel : Nat) (targets : List Node) (c : Cache)
    (h : c.WF) :
    (traceTargets preds fuel targets c).WF ∧ Grows c (traceTargets preds fuel targets c) := by
  unfold traceTargets
  induction targets generalizing c with
  | nil => exact ⟨h, Grows.refl c⟩
  | cons t ts ih =>
    simp only [List.foldl_cons]
    by_cases ht : t ∈ c.inputs
    · rw [if_pos ht]; exact ih c h
    · rw [if_neg ht]
      obtain ⟨w, g⟩ := evalNode_spec preds fuel t c [] h.toWFp
      obtain ⟨w2, g2⟩ := ih _ w.toWF
      exact ⟨w2, g.trans g2⟩

/-- `generate_actions` leaves the cache as it found it when it held user inputs only: every
value it calculated – and nothing else – is cleared again, for every program, every target list,
every set of user inputs (and any call-depth bound). -/
theorem generateLeaves_spec (preds : Node → List Node) (fuel : Nat) (targets : List Node) (c : Cache)
    (h : c.WF) (hc : ∀ x ∈ c.held, x ∈ c.inputs) :
    (∀ x, x ∈ (generateLeaves preds fuel targets c).held ↔ x ∈ c.held) ∧
    (∀ x, x ∈ (generateLeaves preds fuel targets c).inputs ↔ x ∈ c.inputs) ∧
    (generateLeaves preds fuel targets c).edges = [] := by
  obtain ⟨w1, gi, new, gl, gs, gg, gd⟩ := traceTargets_spec preds fuel targets c h
  have hcalc : calculated preds fuel targets c = new := by
    unfold calculated; rw [gl]; simp
  unfold generateLeaves
  rw [hcalc]
  obtain ⟨w3, h3i, h3h, _, _⟩ := clear_fold new (traceTargets preds fuel targets c) w1
  generalize new.foldl (fun c n => clearAt n c) (traceTargets preds fuel targets c) = c3
    at w3 h3i h3h
  have hin : ∀ x, x ∈ c3.inputs ↔ x ∈ c.inputs := by
    intro x
    rw [h3i, gi]
    exact ⟨fun hx => hx.1, fun hx => ⟨hx, fun hn => gd x hn (h.inputsHeld x hx)⟩⟩
  have hheld : ∀ x, x ∈ c3.held → x ∈ c.held := by
    intro x hx
    obtain ⟨h1, h2⟩ := h3h x hx
    rcases gg x h1 with h1 | h1
    · exact h1
    · exact (h2 h1).elim
  refine ⟨?_, hin, ?_⟩
  · intro x
    exact ⟨hheld x, fun hx => w3.inputsHeld x ((hin x).mpr (hc x hx))⟩
  · rw [List.eq_nil_iff_forall_not_mem]
    intro e he
    have := w3.edgeHead e he
    exact this.2 ((hin _).mpr (hc _ (hheld _ this.1)))


end MxModel.CalcSteps
