import MxModel.Proofs.CalcSteps
/-!
# Executing a plan on the abstract cache (`execute` in `Kernels/CalcSteps.lean`)

A. cache primitives (`clearAt`, `setValue`, `evalNode`) under the well-formedness invariant
   "inputs are held, and trace edges only point into held, computed (non-input) elements";
B. the three phases of one step (calc, paste, clear) as folds;
C. the step invariant and the whole run.
-/
namespace MxModel.CalcSteps

/-! ## A. primitives -/

/-- inputs are held; an edge only points into a held element that is not an input -/
structure Cache.WF (c : Cache) : Prop where
  inputsHeld : ∀ x ∈ c.inputs, x ∈ c.held
  edgeHead : ∀ e ∈ c.edges, e.2 ∈ c.held ∧ e.2 ∉ c.inputs

theorem acc_sub_reach (edges : List (Node × Node)) (fuel : Nat) (acc fr : List Node) {x : Node}
    (h : x ∈ acc) : x ∈ reach edges fuel acc fr := by
  induction fuel generalizing acc fr with
  | zero => simpa [reach] using h
  | succ fuel ih =>
    unfold reach
    simp only
    split
    · exact h
    · exact ih _ _ (List.mem_append_left _ h)

theorem mem_reach (edges : List (Node × Node)) (fuel : Nat) (acc fr : List Node) {x : Node}
    (h : x ∈ reach edges fuel acc fr) : x ∈ acc ∨ ∃ e ∈ edges, e.2 = x := by
  induction fuel generalizing acc fr with
  | zero => left; simpa [reach] using h
  | succ fuel ih =>
    unfold reach at h
    simp only at h
    split at h
    · exact Or.inl h
    · rcases ih _ _ h with h | h
      · rcases List.mem_append.mp h with h | h
        · exact Or.inl h
        · right
          rw [List.mem_eraseDups, List.mem_map] at h
          obtain ⟨e, he, rfl⟩ := h
          exact ⟨e, (List.mem_filter.mp he).1, rfl⟩
      · exact Or.inr h

/-- what is reached stays inside every set that contains the start and is closed under the edges -/
theorem reach_sub (edges : List (Node × Node)) (S : Node → Prop) (hS : ∀ e ∈ edges, S e.1 → S e.2)
    (fuel : Nat) (acc fr : List Node) (ha : ∀ x ∈ acc, S x) (hf : ∀ x ∈ fr, S x) :
    ∀ x ∈ reach edges fuel acc fr, S x := by
  induction fuel generalizing acc fr with
  | zero => simpa [reach] using ha
  | succ fuel ih =>
    unfold reach
    simp only
    have hnext : ∀ x ∈ ((edges.filter (fun e => decide (e.1 ∈ fr) && !decide (e.2 ∈ acc))).map (·.2)).eraseDups,
        S x := by
      intro x hx
      rw [List.mem_eraseDups, List.mem_map] at hx
      obtain ⟨e, he, rfl⟩ := hx
      obtain ⟨he1, he2⟩ := List.mem_filter.mp he
      simp only [Bool.and_eq_true, decide_eq_true_eq] at he2
      exact hS e he1 (hf _ he2.1)
    split
    · exact ha
    · apply ih
      · intro x hx
        rcases List.mem_append.mp hx with hx | hx
        · exact ha x hx
        · exact hnext x hx
      · exact hnext

theorem withDescs_sub {edges : List (Node × Node)} (S : Node → Prop) (hS : ∀ e ∈ edges, S e.1 → S e.2)
    {n : Node} (hn : S n) : ∀ x ∈ withDescs edges n, S x :=
  reach_sub edges S hS _ _ _ (by simpa using hn) (by simpa using hn)

theorem self_mem_withDescs (edges : List (Node × Node)) (n : Node) : n ∈ withDescs edges n :=
  acc_sub_reach edges _ _ _ (by simp)

theorem mem_withDescs {edges : List (Node × Node)} {n x : Node} (h : x ∈ withDescs edges n) :
    x = n ∨ ∃ e ∈ edges, e.2 = x := by
  rcases mem_reach edges _ _ _ h with h | h
  · left; simpa using h
  · exact Or.inr h

/-- what `clearAt` does, as far as the run needs it -/
structure ClearSpec (n : Node) (c c' : Cache) : Prop where
  wf : c'.WF
  inputs : ∀ x, x ∈ c'.inputs ↔ x ∈ c.inputs ∧ x ≠ n
  held : ∀ x, x ∈ c'.held → x ∈ c.held ∧ x ≠ n
  log : c'.log = c.log
  edges : ∀ e ∈ c'.edges, e ∈ c.edges

theorem clearAt_spec (n : Node) (c : Cache) (h : c.WF) : ClearSpec n c (clearAt n c) := by
  unfold clearAt
  by_cases hn : n ∈ c.held
  · simp only [hn, if_true]
    have hself := self_mem_withDescs c.edges n
    have hin : ∀ x, x ∈ c.inputs → x ∈ withDescs c.edges n → x = n := by
      intro x hx hr
      rcases mem_withDescs hr with h1 | ⟨e, he, rfl⟩
      · exact h1
      · exact ((h.edgeHead e he).2 hx).elim
    refine ⟨⟨?_, ?_⟩, ?_, ?_, rfl, ?_⟩
    · intro x hx
      simp only [List.mem_filter, Bool.not_eq_true', decide_eq_false_iff_not] at hx ⊢
      exact ⟨h.inputsHeld x hx.1, hx.2⟩
    · intro e he
      simp only [List.mem_filter, Bool.and_eq_true, Bool.not_eq_true',
        decide_eq_false_iff_not] at he ⊢
      exact ⟨⟨(h.edgeHead e he.1).1, he.2.2⟩, fun hc => (h.edgeHead e he.1).2 hc.1⟩
    · intro x
      simp only [List.mem_filter, Bool.not_eq_true', decide_eq_false_iff_not]
      constructor
      · rintro ⟨hx, hr⟩
        exact ⟨hx, fun e => hr (e ▸ hself)⟩
      · rintro ⟨hx, hne⟩
        exact ⟨hx, fun hr => hne (hin x hx hr)⟩
    · intro x hx
      simp only [List.mem_filter, Bool.not_eq_true', decide_eq_false_iff_not] at hx
      exact ⟨hx.1, fun e => hx.2 (e ▸ hself)⟩
    · intro e he
      exact (List.mem_filter.mp he).1
  · simp only [hn, if_false]
    refine ⟨h, ?_, ?_, rfl, fun e he => he⟩
    · intro x
      constructor
      · intro hx; exact ⟨hx, fun e => hn (e ▸ h.inputsHeld x hx)⟩
      · intro hx; exact hx.1
    · intro x hx; exact ⟨hx, fun e => hn (e ▸ hx)⟩

/-- what `clearAt` leaves alone: for every set `S` that contains `n` and is closed under the trace
edges, the values and the edges outside `S` stay; and a value that disappears takes its edges along -/
structure ClearFrame (n : Node) (c c' : Cache) : Prop where
  keepsHeld : ∀ S : Node → Prop, S n → (∀ e ∈ c.edges, S e.1 → S e.2) → ∀ x ∈ c.held, ¬ S x → x ∈ c'.held
  keepsEdges : ∀ S : Node → Prop, S n → (∀ e ∈ c.edges, S e.1 → S e.2) →
    ∀ e ∈ c.edges, ¬ S e.1 → ¬ S e.2 → e ∈ c'.edges
  goneEdges : ∀ x ∈ c.held, x ∉ c'.held → ∀ e ∈ c'.edges, e.1 ≠ x ∧ e.2 ≠ x

theorem clearAt_frame (n : Node) (c : Cache) : ClearFrame n c (clearAt n c) := by
  unfold clearAt
  by_cases hn : n ∈ c.held
  · simp only [hn, if_true]
    refine ⟨?_, ?_, ?_⟩
    · intro S hSn hS x hx hnS
      simp only [List.mem_filter, Bool.not_eq_true', decide_eq_false_iff_not]
      exact ⟨hx, fun hr => hnS (withDescs_sub S hS hSn x hr)⟩
    · intro S hSn hS e he h1 h2
      simp only [List.mem_filter, Bool.and_eq_true, Bool.not_eq_true', decide_eq_false_iff_not]
      exact ⟨he, fun hr => h1 (withDescs_sub S hS hSn _ hr), fun hr => h2 (withDescs_sub S hS hSn _ hr)⟩
    · intro x hx hx' e he
      simp only [List.mem_filter, Bool.not_eq_true', decide_eq_false_iff_not] at hx'
      have hr : x ∈ withDescs c.edges n := by
        by_cases h : x ∈ withDescs c.edges n
        · exact h
        · exact (hx' ⟨hx, h⟩).elim
      simp only [List.mem_filter, Bool.and_eq_true, Bool.not_eq_true', decide_eq_false_iff_not] at he
      exact ⟨fun e1 => he.2.1 (e1 ▸ hr), fun e2 => he.2.2 (e2 ▸ hr)⟩
  · simp only [hn, if_false]
    exact ⟨fun _ _ _ x hx _ => hx, fun _ _ _ e he _ _ => he, fun x hx hx' => (hx' hx).elim⟩

theorem setValue_frame (n : Node) (c : Cache) :
    (∀ S : Node → Prop, S n → (∀ e ∈ c.edges, S e.1 → S e.2) → ∀ x ∈ c.held, ¬ S x → x ∈ (setValue n c).held) ∧
    (∀ S : Node → Prop, S n → (∀ e ∈ c.edges, S e.1 → S e.2) →
      ∀ e ∈ c.edges, ¬ S e.1 → ¬ S e.2 → e ∈ (setValue n c).edges) := by
  have f := clearAt_frame n c
  unfold setValue
  refine ⟨?_, ?_⟩
  · intro S hSn hS x hx hnS
    exact List.mem_append_left _ (f.keepsHeld S hSn hS x hx hnS)
  · intro S hSn hS e he h1 h2
    exact f.keepsEdges S hSn hS e he h1 h2

/-- what `setValue` does -/
structure PasteSpec (n : Node) (c c' : Cache) : Prop where
  wf : c'.WF
  inputs : ∀ x, x ∈ c'.inputs ↔ x ∈ c.inputs ∨ x = n
  held : ∀ x, x ∈ c'.held → x ∈ c.held ∨ x = n
  log : c'.log = c.log
  edges : ∀ e ∈ c'.edges, e ∈ c.edges

theorem setValue_spec (n : Node) (c : Cache) (h : c.WF) : PasteSpec n c (setValue n c) := by
  have s := clearAt_spec n c h
  unfold setValue
  refine ⟨⟨?_, ?_⟩, ?_, ?_, ?_, ?_⟩
  · intro x hx
    simp only [List.mem_append, List.mem_singleton] at hx ⊢
    rcases hx with hx | hx
    · exact Or.inl (s.wf.inputsHeld x hx)
    · exact Or.inr hx
  · intro e he
    have := s.wf.edgeHead e he
    simp only [List.mem_append, List.mem_singleton]
    refine ⟨Or.inl this.1, ?_⟩
    rintro (hc | hc)
    · exact this.2 hc
    · exact (s.held _ this.1).2 hc
  · intro x
    simp only [List.mem_append, List.mem_singleton, s.inputs]
    constructor
    · rintro (⟨hx, _⟩ | hx)
      · exact Or.inl hx
      · exact Or.inr hx
    · rintro (hx | hx)
      · by_cases e : x = n
        · exact Or.inr e
        · exact Or.inl ⟨hx, e⟩
      · exact Or.inr hx
  · intro x hx
    simp only [List.mem_append, List.mem_singleton] at hx
    rcases hx with hx | hx
    · exact Or.inl (s.held x hx).1
    · exact Or.inr hx
  · exact s.log
  · intro e he; exact s.edges e he

theorem evalNode_held (preds : Node → List Node) (fuel : Nat) (n : Node) (c : Cache)
    (h : n ∈ c.held) : evalNode preds fuel n c = c := by
  cases fuel with
  | zero => rfl
  | succ fuel => simp [evalNode, h]

theorem evalNode_ready_fold (preds : Node → List Node) (fuel : Nat) (n : Node) (ps : List Node)
    (c : Cache) (h : ∀ p ∈ ps, p ∈ c.held) :
    ps.foldl (fun c p => (evalNode preds fuel p c).addEdge p n) c
      = { c with edges := c.edges ++ ps.map (fun p => (p, n)) } := by
  induction ps generalizing c with
  | nil => simp
  | cons p ps ih =>
    simp only [List.foldl_cons]
    rw [evalNode_held preds fuel p c (h p (by simp))]
    rw [ih _ (fun q hq => by
      have := h q (List.mem_cons_of_mem _ hq); simpa [Cache.addEdge] using this)]
    simp [Cache.addEdge]

/-- evaluating an element that is not held while everything it calls is held: its formula runs
once, nothing else runs -/
theorem evalNode_ready (preds : Node → List Node) (fuel : Nat) (n : Node) (c : Cache)
    (hn : n ∉ c.held) (hp : ∀ p ∈ preds n, p ∈ c.held) :
    evalNode preds (fuel + 1) n c =
      { held := c.held ++ [n], inputs := c.inputs,
        edges := c.edges ++ (preds n).map (fun p => (p, n)), log := c.log ++ [n] } := by
  have hf := evalNode_ready_fold preds fuel n (preds n) (c.enter n) (by simpa [Cache.enter] using hp)
  unfold evalNode
  rw [if_neg hn, hf]
  simp [Cache.enter, Cache.store]

/-! ## B. the phases of one step -/

theorem eval_all_held (preds : Node → List Node) (fuel : Nat) (ns : List Node) (c : Cache)
    (h : ∀ n ∈ ns, n ∈ c.held) : ns.foldl (fun c n => evalNode preds fuel n c) c = c := by
  induction ns with
  | nil => rfl
  | cons n ns ih =>
    simp only [List.foldl_cons]
    rw [evalNode_held preds fuel n c (h n (by simp))]
    exact ih (fun m hm => h m (List.mem_cons_of_mem _ hm))

theorem paste_fold (ns : List Node) (c : Cache) (h : c.WF) :
    let c' := ns.foldl (fun c n => setValue n c) c
    c'.WF ∧ (∀ x, x ∈ c'.inputs ↔ x ∈ c.inputs ∨ x ∈ ns) ∧
      (∀ x, x ∈ c'.held → x ∈ c.held ∨ x ∈ ns) ∧ c'.log = c.log ∧ (∀ e ∈ c'.edges, e ∈ c.edges) := by
  induction ns generalizing c with
  | nil => simp [h]
  | cons n ns ih =>
    have s := setValue_spec n c h
    obtain ⟨w, hi, hh, hl, he⟩ := ih (setValue n c) s.wf
    simp only [List.foldl_cons]
    refine ⟨w, ?_, ?_, ?_, ?_⟩
    · intro x; rw [hi x, s.inputs x]; simp only [List.mem_cons]; grind
    · intro x hx
      rcases hh x hx with hx | hx
      · rcases s.held x hx with hx | hx
        · exact Or.inl hx
        · exact Or.inr (by simp [hx])
      · exact Or.inr (List.mem_cons_of_mem _ hx)
    · rw [hl, s.log]
    · intro e hm; exact s.edges e (he e hm)

theorem clear_fold (ns : List Node) (c : Cache) (h : c.WF) :
    let c' := ns.foldl (fun c n => clearAt n c) c
    c'.WF ∧ (∀ x, x ∈ c'.inputs ↔ x ∈ c.inputs ∧ x ∉ ns) ∧
      (∀ x, x ∈ c'.held → x ∈ c.held ∧ x ∉ ns) ∧ c'.log = c.log ∧ (∀ e ∈ c'.edges, e ∈ c.edges) := by
  induction ns generalizing c with
  | nil => simp [h]
  | cons n ns ih =>
    have s := clearAt_spec n c h
    obtain ⟨w, hi, hh, hl, he⟩ := ih (clearAt n c) s.wf
    simp only [List.foldl_cons]
    refine ⟨w, ?_, ?_, ?_, ?_⟩
    · intro x; rw [hi x, s.inputs x]; simp only [List.mem_cons]; grind
    · intro x hx
      have h1 := hh x hx
      have h2 := s.held x h1.1
      refine ⟨h2.1, ?_⟩
      simp only [List.mem_cons, not_or]
      exact ⟨h2.2, h1.2⟩
    · rw [hl, s.log]
    · intro e hm; exact s.edges e (he e hm)

/-- pasting and clearing elements of a set `S` that is closed under the trace edges leaves the values
and the edges outside `S` alone -/
theorem paste_fold_frame (S : Node → Prop) (ns : List Node) (c : Cache) (h : c.WF)
    (hns : ∀ n ∈ ns, S n) (hS : ∀ e ∈ c.edges, S e.1 → S e.2) :
    let c' := ns.foldl (fun c n => setValue n c) c
    (∀ x ∈ c.held, ¬ S x → x ∈ c'.held) ∧ (∀ e ∈ c.edges, ¬ S e.1 → ¬ S e.2 → e ∈ c'.edges) := by
  induction ns generalizing c with
  | nil => exact ⟨fun _ hx _ => hx, fun _ he _ _ => he⟩
  | cons n ns ih =>
    have s := setValue_spec n c h
    obtain ⟨f1, f2⟩ := setValue_frame n c
    have hS' : ∀ e ∈ (setValue n c).edges, S e.1 → S e.2 := fun e he => hS e (s.edges e he)
    obtain ⟨i1, i2⟩ := ih (setValue n c) s.wf (fun m hm => hns m (List.mem_cons_of_mem _ hm)) hS'
    simp only [List.foldl_cons]
    exact ⟨fun x hx hn => i1 x (f1 S (hns n (by simp)) hS x hx hn) hn,
      fun e he h1 h2 => i2 e (f2 S (hns n (by simp)) hS e he h1 h2) h1 h2⟩

theorem clear_fold_frame (S : Node → Prop) (ns : List Node) (c : Cache) (h : c.WF)
    (hns : ∀ n ∈ ns, S n) (hS : ∀ e ∈ c.edges, S e.1 → S e.2) :
    let c' := ns.foldl (fun c n => clearAt n c) c
    (∀ x ∈ c.held, ¬ S x → x ∈ c'.held) ∧ (∀ e ∈ c.edges, ¬ S e.1 → ¬ S e.2 → e ∈ c'.edges) := by
  induction ns generalizing c with
  | nil => exact ⟨fun _ hx _ => hx, fun _ he _ _ => he⟩
  | cons n ns ih =>
    have s := clearAt_spec n c h
    have f := clearAt_frame n c
    have hS' : ∀ e ∈ (clearAt n c).edges, S e.1 → S e.2 := fun e he => hS e (s.edges e he)
    obtain ⟨i1, i2⟩ := ih (clearAt n c) s.wf (fun m hm => hns m (List.mem_cons_of_mem _ hm)) hS'
    simp only [List.foldl_cons]
    exact ⟨fun x hx hn => i1 x (f.keepsHeld S (hns n (by simp)) hS x hx hn) hn,
      fun e he h1 h2 => i2 e (f.keepsEdges S (hns n (by simp)) hS e he h1 h2) h1 h2⟩

/-- after clearing a list of elements that all have a value, no trace edge touches any of them -/
theorem clear_fold_gone (ns : List Node) (c : Cache) (h : c.WF) :
    ∀ p ∈ ns, p ∈ c.held → ∀ e ∈ (ns.foldl (fun c n => clearAt n c) c).edges, e.1 ≠ p ∧ e.2 ≠ p := by
  induction ns generalizing c with
  | nil => intro p hp; cases hp
  | cons n ns ih =>
    intro p hp hph e he
    simp only [List.foldl_cons] at he
    have s := clearAt_spec n c h
    have f := clearAt_frame n c
    obtain ⟨_, _, _, _, hsub⟩ := clear_fold ns (clearAt n c) s.wf
    by_cases hstill : p ∈ (clearAt n c).held
    · rcases List.mem_cons.mp hp with rfl | hp'
      · exact absurd rfl (s.held p hstill).2
      · exact ih (clearAt n c) s.wf p hp' hstill e he
    · exact f.goneEdges p hph hstill e (hsub e he)

/-! ## C. the step invariant -/

theorem isTopo_of_append {succs : Node → List Node} {a b : List Node}
    (h : isTopo succs (a ++ b) = true) : isTopo succs b = true := by
  induction a with
  | nil => exact h
  | cons x a ih => exact ih (isTopo_cons.mp h).2

/-- in a topological order of distinct nodes every predecessor of `n` stands before `n` -/
theorem isTopo_pred_strict {succs : Node → List Node} {pre post : List Node} {n p : Node}
    (h : isTopo succs (pre ++ n :: post) = true) (hd : (pre ++ n :: post).Nodup)
    (hp : p ∈ pre ++ n :: post) (hs : n ∈ succs p) : p ∈ pre := by
  have hn : n ∉ post := by
    have := (List.nodup_append.mp hd).2.1
    exact (List.nodup_cons.mp this).1
  rcases List.mem_append.mp hp with hp | hp
  · exact hp
  · rcases List.mem_cons.mp hp with rfl | hp
    · exact (hn ((isTopo_cons.mp (isTopo_of_append h)).1 _ hs)).elim
    · have h2 : isTopo succs post = true := (isTopo_cons.mp (isTopo_of_append h)).2
      exact (hn (isTopo_closed h2 hp hs)).elim

theorem hasSuccOutside_mono {succs : Node → List Node} {a b : List Node} {n : Node}
    (hab : ∀ x ∈ a, x ∈ b) (h : hasSuccOutside succs b n = true) :
    hasSuccOutside succs a n = true := by
  obtain ⟨s, hs, hn⟩ := hasSuccOutside_true.mp h
  exact hasSuccOutside_true.mpr ⟨s, hs, fun hc => hn (hab s hc)⟩

section run
variable (ordered : List Node) (succs : Node → List Node) (targets : List Node) (size : Nat)

/-- an element of an earlier block that is not a target and still has a successor outside the
blocks done so far is in `pasted` -/
theorem pastedAt_of_pending (k : Nat) {n : Node} (hn : n ∈ ordered.take (k * size))
    (hnt : n ∉ targets) (hs : hasSuccOutside succs (ordered.take (k * size)) n = true) :
    n ∈ pastedAt ordered succs targets size k := by
  induction k with
  | zero => simp at hn
  | succ k ih =>
    have e := accum_succ ordered size k
    rw [accum_eq_take_succ] at e
    simp only [pastedAt]
    rw [stepOut_pasted, List.mem_append]
    rw [e] at hn
    rcases List.mem_append.mp hn with hn | hn
    · left
      have h1 : hasSuccOutside succs (ordered.take (k * size)) n = true :=
        hasSuccOutside_mono (fun x hx => mem_take_mono (Nat.mul_le_mul_right size (Nat.le_succ k)) hx) hs
      exact List.mem_filter.mpr ⟨ih hn h1, by rw [accum_eq_take_succ]; exact hs⟩
    · right
      have h1 : hasSuccOutside succs (curBlock ordered size k) n = true :=
        hasSuccOutside_mono (fun x hx => by rw [e]; exact List.mem_append_right _ hx) hs
      exact List.mem_filter.mpr ⟨hn, by simp [hnt, h1]⟩

variable (preds : Node → List Node)

/-- the three actions of one step -/
def execStep (fuel : Nat) (o : StepOut) (c : Cache) : Cache :=
  execAction preds fuel (execAction preds fuel (execAction preds fuel c (.doCalc o.block))
    (.doPaste o.paste)) (.doClear o.clear)

theorem execute_flatMap (fuel : Nat) (l : List StepOut) (c : Cache) :
    execute preds fuel (l.flatMap StepOut.actions) c = l.foldl (fun c o => execStep preds fuel o c) c := by
  unfold execute
  rw [List.foldl_flatMap]
  rfl

/-- what is held between two steps -/
def heldAt (k : Nat) (x : Node) : Prop :=
  x ∈ pastedAt ordered succs targets size k ∨ (x ∈ targets ∧ x ∈ ordered.take (k * size))

/-- the state between steps `k-1` and `k` of a run that started from the cache `c0`: what `c0`
held – user inputs and calculated values alike, with `c0`'s trace edges – and the planned elements
that are pasted, nothing else -/
structure SInv (c0 : Cache) (k : Nat) (c : Cache) : Prop where
  held : ∀ x, x ∈ c.held ↔ heldAt ordered succs targets size k x ∨ x ∈ c0.held
  inputs : ∀ x, x ∈ c.inputs ↔ heldAt ordered succs targets size k x ∨ x ∈ c0.inputs
  edges : ∀ e, e ∈ c.edges ↔ e ∈ c0.edges
  log : c.log = c0.log ++ ordered.take (k * size)

theorem heldAt_sub {k : Nat} {x : Node} (h : heldAt ordered succs targets size k x) :
    x ∈ ordered.take (k * size) := by
  rcases h with h | h
  · exact (pastedAt_sub ordered succs targets size k h).1
  · exact h.2

variable (c0 : Cache) (ht : isTopo succs ordered = true) (hd : ordered.Nodup)
  (h0 : c0.WF) (h0d : ∀ x ∈ c0.held, x ∉ ordered) (h0e : ∀ e ∈ c0.edges, e.1 ∉ ordered)
  (hp : ∀ n ∈ ordered, ∀ p ∈ preds n, (p ∈ ordered ∧ n ∈ succs p) ∨ p ∈ c0.held)
include ht hd h0 h0d h0e hp

/-- calc phase: the elements of the block are computed one after the other, each exactly once,
and nothing else is computed, because everything an element calls is held when its turn comes -/
theorem calc_phase (fuel k : Nat) (c : Cache) (inv : SInv ordered succs targets size c0 k c)
    (rest done : List Node) (c' : Cache)
    (hB : curBlock ordered size k = done ++ rest)
    (hh : c'.held = c.held ++ done) (hi : c'.inputs = c.inputs) (hl : c'.log = c.log ++ done)
    (he : ∀ e ∈ c'.edges, e ∈ c0.edges ∨ e.2 ∈ done) (hk : ∀ e ∈ c0.edges, e ∈ c'.edges) :
    let r := rest.foldl (fun c n => evalNode preds (fuel + 1) n c) c'
    r.held = c.held ++ curBlock ordered size k ∧ r.inputs = c.inputs ∧
      r.log = c.log ++ curBlock ordered size k ∧
      (∀ e ∈ r.edges, e ∈ c0.edges ∨ e.2 ∈ curBlock ordered size k) ∧ ∀ e ∈ c0.edges, e ∈ r.edges := by
  induction rest generalizing done c' with
  | nil =>
    simp only [List.append_nil] at hB
    simp only [List.foldl_nil, hB]
    exact ⟨hh, hi, hl, he, hk⟩
  | cons n rest ih =>
    -- ordered = (T ++ done) ++ n :: (rest ++ D)
    have eo : ordered = (ordered.take (k * size) ++ done) ++ n :: (rest ++ ordered.drop ((k + 1) * size)) := by
      have e1 := (List.take_append_drop ((k + 1) * size) ordered).symm
      have e2 := accum_succ ordered size k
      rw [accum_eq_take_succ] at e2
      rw [e2, hB] at e1
      simpa [List.append_assoc] using e1
    have hd' := hd
    rw [eo] at hd'
    have ht' := ht
    rw [eo] at ht'
    have hnpre : n ∉ ordered.take (k * size) ++ done := by
      have := (List.nodup_append.mp hd').2.2
      intro hc
      exact this n hc n (by simp) rfl
    have hheld_sub : ∀ x, x ∈ c.held → x ∈ ordered.take (k * size) ∨ x ∈ c0.held :=
      fun x hx => ((inv.held x).mp hx).imp (heldAt_sub ordered succs targets size) id
    have hnB : n ∈ curBlock ordered size k := by rw [hB]; simp
    have hnord : n ∈ ordered := mem_of_mem_block hnB
    have hn : n ∉ c'.held := by
      rw [hh]
      intro hc
      rcases List.mem_append.mp hc with hc | hc
      · rcases hheld_sub n hc with hc | hc
        · exact hnpre (List.mem_append_left _ hc)
        · exact h0d n hc hnord
      · exact hnpre (List.mem_append_right _ hc)
    have hpreds : ∀ p ∈ preds n, p ∈ c'.held := by
      intro p hpm
      rcases hp n hnord p hpm with ⟨hpo, hsucc⟩ | hp0
      case inr =>
        rw [hh]; exact List.mem_append_left _ ((inv.held p).mpr (Or.inr hp0))
      have hpo' := hpo
      rw [eo] at hpo'
      have hpre := isTopo_pred_strict ht' hd' hpo' hsucc
      rw [hh]
      rcases List.mem_append.mp hpre with hpt | hpd
      · apply List.mem_append_left
        rw [inv.held]
        left
        by_cases hpt' : p ∈ targets
        · exact Or.inr ⟨hpt', hpt⟩
        · left
          apply pastedAt_of_pending ordered succs targets size k hpt hpt'
          exact hasSuccOutside_true.mpr ⟨n, hsucc, fun hc => hnpre (List.mem_append_left _ hc)⟩
      · exact List.mem_append_right _ hpd
    simp only [List.foldl_cons]
    rw [evalNode_ready preds fuel n c' hn hpreds]
    apply ih (done ++ [n])
    · rw [hB]; simp
    · simp [hh]
    · exact hi
    · simp [hl]
    · intro e hem
      simp only [List.mem_append, List.mem_map, List.mem_singleton] at hem ⊢
      rcases hem with hem | ⟨p, _, rfl⟩
      · exact (he e hem).imp id Or.inl
      · exact Or.inr (Or.inr rfl)
    · intro e hem
      exact List.mem_append_left _ (hk e hem)

/-- one step of the plan takes the state between steps `k` and `k+1` -/
theorem step_inv (fuel k : Nat) (c : Cache) (inv : SInv ordered succs targets size c0 k c) :
    SInv ordered succs targets size c0 (k + 1)
      (execStep preds (fuel + 1) (stepAt ordered succs targets size k) c) := by
  have hheld_sub : ∀ x, x ∈ c.held → x ∈ ordered.take (k * size) ∨ x ∈ c0.held :=
    fun x hx => ((inv.held x).mp hx).imp (heldAt_sub ordered succs targets size) id
  have eT := accum_succ ordered size k
  rw [accum_eq_take_succ] at eT
  -- the block is disjoint from what came before
  have hdisj : ∀ x, x ∈ ordered.take (k * size) → x ∈ curBlock ordered size k → False :=
    fun x h1 h2 => nodup_take_drop_disjoint hd _ h1 (block_sub_drop h2)
  have h0head : ∀ e ∈ c0.edges, e.2 ∉ ordered := fun e he => h0d _ (h0.edgeHead e he).1
  -- calc
  obtain ⟨h1h, h1i, h1l, h1e, h1k⟩ := calc_phase ordered succs targets size preds c0 ht hd h0 h0d h0e hp fuel k c inv
    (curBlock ordered size k) [] c (by simp) (by simp) rfl (by simp)
    (fun e he => Or.inl ((inv.edges e).mp he)) (fun e he => (inv.edges e).mpr he)
  generalize hc1 : (curBlock ordered size k).foldl (fun c n => evalNode preds (fuel + 1) n c) c = c1
    at h1h h1i h1l h1e h1k
  have wf1 : c1.WF := by
    refine ⟨?_, ?_⟩
    · intro x hx
      rw [h1i, inv.inputs] at hx
      rw [h1h]; apply List.mem_append_left
      rw [inv.held]
      exact hx.imp id (h0.inputsHeld x)
    · intro e hem
      rcases h1e e hem with h0m | hb
      · have hh := h0.edgeHead e h0m
        refine ⟨by rw [h1h]; exact List.mem_append_left _ ((inv.held _).mpr (Or.inr hh.1)), ?_⟩
        rw [h1i, inv.inputs]
        rintro (hc | hc)
        · exact h0head e h0m (List.mem_of_mem_take (heldAt_sub ordered succs targets size hc))
        · exact hh.2 hc
      · refine ⟨by rw [h1h]; exact List.mem_append_right _ hb, ?_⟩
        rw [h1i, inv.inputs]
        rintro (hc | hc)
        · exact hdisj _ (heldAt_sub ordered succs targets size hc) hb
        · exact h0d _ (h0.inputsHeld _ hc) (mem_of_mem_block hb)
  -- the planned elements are closed under the trace edges of `c1`
  have hS1 : ∀ e ∈ c1.edges, e.1 ∈ ordered → e.2 ∈ ordered := by
    intro e he h1
    rcases h1e e he with h0m | hb
    · exact (h0e e h0m h1).elim
    · exact mem_of_mem_block hb
  -- paste
  have hpaste := stepOut_paste ordered succs targets size k (pastedAt ordered succs targets size k)
  have hclear := stepOut_clear ordered succs targets size k (pastedAt ordered succs targets size k)
  have hpasted := stepOut_pasted ordered succs targets size k (pastedAt ordered succs targets size k)
  have hpaste_sub : ∀ x ∈ (stepAt ordered succs targets size k).paste, x ∈ c1.held := by
    intro x hx
    unfold stepAt at hx
    rw [hpaste, List.mem_reverse] at hx
    rw [h1h]; exact List.mem_append_right _ (List.mem_filter.mp hx).1
  obtain ⟨wf2, h2i, h2h, h2l, h2e⟩ := paste_fold (stepAt ordered succs targets size k).paste c1 wf1
  obtain ⟨wf3, h3i, h3h, h3l, h3e⟩ := clear_fold (stepAt ordered succs targets size k).clear _ wf2
  have hstep : execStep preds (fuel + 1) (stepAt ordered succs targets size k) c =
      (stepAt ordered succs targets size k).clear.foldl (fun c n => clearAt n c)
        ((stepAt ordered succs targets size k).paste.foldl (fun c n => setValue n c) c1) := by
    unfold execStep
    simp only [execAction]
    have hb : (stepAt ordered succs targets size k).block = curBlock ordered size k := rfl
    rw [hb, hc1, eval_all_held preds (fuel + 1) _ c1 hpaste_sub]
  rw [hstep]
  -- membership in the three lists of the step
  have mem_paste : ∀ x, x ∈ (stepAt ordered succs targets size k).paste ↔
      x ∈ curBlock ordered size k ∧ pasteHere succs targets (curBlock ordered size k) x = true := by
    intro x; unfold stepAt; rw [hpaste, List.mem_reverse, List.mem_filter]
  have mem_clear : ∀ x, x ∈ (stepAt ordered succs targets size k).clear ↔
      (x ∈ curBlock ordered size k ∧ pasteHere succs targets (curBlock ordered size k) x = false) ∨
      (x ∈ pastedAt ordered succs targets size k ∧
        hasSuccOutside succs (accumNodes ordered size k) x = false) := by
    intro x; unfold stepAt; rw [hclear, List.mem_append, List.mem_filter, List.mem_filter]
    simp
  have mem_next : ∀ x, x ∈ pastedAt ordered succs targets size (k + 1) ↔
      (x ∈ pastedAt ordered succs targets size k ∧
        hasSuccOutside succs (accumNodes ordered size k) x = true) ∨
      (x ∈ curBlock ordered size k ∧ x ∉ targets ∧
        hasSuccOutside succs (curBlock ordered size k) x = true) := by
    intro x
    simp only [pastedAt]
    rw [hpasted, List.mem_append, List.mem_filter, List.mem_filter]
    simp
  have hP : ∀ x, x ∈ pastedAt ordered succs targets size k →
      x ∈ ordered.take (k * size) ∧ x ∉ targets :=
    fun x hx => pastedAt_sub ordered succs targets size k hx
  -- S1 / S2
  have S1 : ∀ x, (heldAt ordered succs targets size k x ∨ x ∈ curBlock ordered size k) →
      x ∉ (stepAt ordered succs targets size k).clear → heldAt ordered succs targets size (k + 1) x := by
    intro x hx hnc
    rw [mem_clear] at hnc
    unfold heldAt
    rw [mem_next, eT, List.mem_append]
    rcases hx with (hx | ⟨hxt, hxT⟩) | hx
    · left; left
      refine ⟨hx, ?_⟩
      cases hk : hasSuccOutside succs (accumNodes ordered size k) x with
      | true => rfl
      | false => exact (hnc (Or.inr ⟨hx, hk⟩)).elim
    · exact Or.inr ⟨hxt, Or.inl hxT⟩
    · have hph : pasteHere succs targets (curBlock ordered size k) x = true := by
        cases hk : pasteHere succs targets (curBlock ordered size k) x with
        | true => rfl
        | false => exact (hnc (Or.inl ⟨hx, hk⟩)).elim
      by_cases hxt : x ∈ targets
      · exact Or.inr ⟨hxt, Or.inr hx⟩
      · left; right
        refine ⟨hx, hxt, ?_⟩
        simpa [pasteHere, hxt] using hph
  have S2 : ∀ x, heldAt ordered succs targets size (k + 1) x →
      (heldAt ordered succs targets size k x ∨ x ∈ (stepAt ordered succs targets size k).paste) ∧
      x ∉ (stepAt ordered succs targets size k).clear := by
    intro x hx
    unfold heldAt at hx
    rw [mem_next, eT, List.mem_append] at hx
    rw [mem_clear, mem_paste]
    rcases hx with (⟨hxP, hk⟩ | ⟨hxB, hxt, hs⟩) | ⟨hxt, hxT | hxB⟩
    · refine ⟨Or.inl (Or.inl hxP), ?_⟩
      rintro (⟨hb, _⟩ | ⟨_, hk'⟩)
      · exact hdisj x (hP x hxP).1 hb
      · rw [hk] at hk'; cases hk'
    · have hph : pasteHere succs targets (curBlock ordered size k) x = true := by
        simp [pasteHere, hs]
      refine ⟨Or.inr ⟨hxB, hph⟩, ?_⟩
      rintro (⟨_, hk'⟩ | ⟨hxP, _⟩)
      · rw [hph] at hk'; cases hk'
      · exact hdisj x (hP x hxP).1 hxB
    · refine ⟨Or.inl (Or.inr ⟨hxt, hxT⟩), ?_⟩
      rintro (⟨hb, _⟩ | ⟨hxP, _⟩)
      · exact hdisj x hxT hb
      · exact (hP x hxP).2 hxt
    · have hph : pasteHere succs targets (curBlock ordered size k) x = true := by
        simp [pasteHere, hxt]
      refine ⟨Or.inr ⟨hxB, hph⟩, ?_⟩
      rintro (⟨_, hk'⟩ | ⟨hxP, _⟩)
      · rw [hph] at hk'; cases hk'
      · exact (hP x hxP).2 hxt
  have clear_planned : ∀ x, x ∈ (stepAt ordered succs targets size k).clear → x ∈ ordered := by
    intro x hx
    rcases (mem_clear x).mp hx with ⟨hb, _⟩ | ⟨hP', _⟩
    · exact mem_of_mem_block hb
    · exact List.mem_of_mem_take (hP x hP').1
  have paste_planned : ∀ x, x ∈ (stepAt ordered succs targets size k).paste → x ∈ ordered :=
    fun x hx => mem_of_mem_block ((mem_paste x).mp hx).1
  -- what lies outside the plan is left alone by the two folds
  obtain ⟨p2h, p2e⟩ := paste_fold_frame (· ∈ ordered) (stepAt ordered succs targets size k).paste c1 wf1
    paste_planned hS1
  have hS2 : ∀ e ∈ ((stepAt ordered succs targets size k).paste.foldl (fun c n => setValue n c) c1).edges,
      e.1 ∈ ordered → e.2 ∈ ordered := fun e he => hS1 e (h2e e he)
  obtain ⟨p3h, p3e⟩ := clear_fold_frame (· ∈ ordered) (stepAt ordered succs targets size k).clear _ wf2
    clear_planned hS2
  generalize hc3 : (stepAt ordered succs targets size k).clear.foldl (fun c n => clearAt n c)
    ((stepAt ordered succs targets size k).paste.foldl (fun c n => setValue n c) c1) = c3
    at wf3 h3i h3h h3l h3e p3h p3e
  generalize hc2 : (stepAt ordered succs targets size k).paste.foldl (fun c n => setValue n c) c1 = c2
    at wf2 h2i h2h h2l h2e h3i h3h h3l h3e p2h p2e p3h p3e hS2
  have held_to : ∀ x, x ∈ c3.held → heldAt ordered succs targets size (k + 1) x ∨ x ∈ c0.held := by
    intro x hx
    obtain ⟨h2, hnc⟩ := h3h x hx
    rcases h2h x h2 with h1 | hpm
    · rw [h1h] at h1
      rcases List.mem_append.mp h1 with h1 | h1
      · rcases (inv.held x).mp h1 with h1 | h1
        · exact Or.inl (S1 x (Or.inl h1) hnc)
        · exact Or.inr h1
      · exact Or.inl (S1 x (Or.inr h1) hnc)
    · exact Or.inl (S1 x (Or.inr ((mem_paste x).mp hpm).1) hnc)
  have to_inputs : ∀ x, (heldAt ordered succs targets size (k + 1) x ∨ x ∈ c0.inputs) → x ∈ c3.inputs := by
    intro x hx
    rw [h3i, h2i]
    rcases hx with hx | hx
    · obtain ⟨h1, hnc⟩ := S2 x hx
      refine ⟨?_, hnc⟩
      rcases h1 with h1 | h1
      · left; rw [h1i, inv.inputs]; exact Or.inl h1
      · exact Or.inr h1
    · refine ⟨?_, fun hcl => h0d x (h0.inputsHeld x hx) (clear_planned x hcl)⟩
      left; rw [h1i, inv.inputs]; exact Or.inr hx
  have from_inputs : ∀ x, x ∈ c3.inputs → heldAt ordered succs targets size (k + 1) x ∨ x ∈ c0.inputs := by
    intro x hx
    rw [h3i, h2i] at hx
    obtain ⟨hx, hnc⟩ := hx
    rcases hx with hx | hx
    · rw [h1i, inv.inputs] at hx
      rcases hx with hx | hx
      · exact Or.inl (S1 x (Or.inl hx) hnc)
      · exact Or.inr hx
    · exact Or.inl (S1 x (Or.inr ((mem_paste x).mp hx).1) hnc)
  refine ⟨?_, ?_, ?_, ?_⟩
  · intro x
    refine ⟨held_to x, ?_⟩
    rintro (hx | hx)
    · exact wf3.inputsHeld x (to_inputs x (Or.inl hx))
    · apply p3h x ?_ (h0d x hx)
      apply p2h x ?_ (h0d x hx)
      rw [h1h]; exact List.mem_append_left _ ((inv.held x).mpr (Or.inr hx))
  · intro x
    exact ⟨from_inputs x, to_inputs x⟩
  · intro e
    constructor
    · intro hem
      have h1m := h2e e (h3e e hem)
      rcases h1e e h1m with h0m | hb
      · exact h0m
      · have hw := wf3.edgeHead e hem
        rcases held_to _ hw.1 with hh | hh
        · exact (hw.2 (to_inputs _ (Or.inl hh))).elim
        · exact (h0d _ hh (mem_of_mem_block hb)).elim
    · intro h0m
      exact p3e e (p2e e (h1k e h0m) (h0e e h0m) (h0head e h0m)) (h0e e h0m) (h0head e h0m)
  · rw [h3l, h2l, h1l, inv.log, eT, List.append_assoc]

end run

/-! ## D. `generate_actions`: tracing the targets and clearing what was calculated -/

/-- `WF` while the formulas of `pend` are running: edges may already point into them -/
structure Cache.WFp (pend : List Node) (c : Cache) : Prop where
  inputsHeld : ∀ x ∈ c.inputs, x ∈ c.held
  edgeHead : ∀ e ∈ c.edges, (e.2 ∈ c.held ∨ e.2 ∈ pend) ∧ e.2 ∉ c.inputs

theorem Cache.WFp.toWF {c : Cache} (h : c.WFp []) : c.WF :=
  ⟨h.inputsHeld, fun e he => ⟨by simpa using (h.edgeHead e he).1, (h.edgeHead e he).2⟩⟩

theorem Cache.WF.toWFp {c : Cache} (h : c.WF) : c.WFp [] :=
  ⟨h.inputsHeld, fun e he => ⟨Or.inl (h.edgeHead e he).1, (h.edgeHead e he).2⟩⟩

/-- evaluation only adds: inputs stay, held values stay, every new held value was logged, and
what is logged was not held before -/
structure Grows (c c' : Cache) : Prop where
  inputs : c'.inputs = c.inputs
  new : ∃ new, c'.log = c.log ++ new ∧ (∀ x ∈ c.held, x ∈ c'.held) ∧
    (∀ x ∈ c'.held, x ∈ c.held ∨ x ∈ new) ∧ ∀ x ∈ new, x ∉ c.held

theorem Grows.refl (c : Cache) : Grows c c :=
  ⟨rfl, [], by simp, fun _ h => h, fun _ h => Or.inl h, by simp⟩

theorem Grows.trans {a b c : Cache} (h1 : Grows a b) (h2 : Grows b c) : Grows a c := by
  obtain ⟨i1, n1, l1, s1, g1, d1⟩ := h1
  obtain ⟨i2, n2, l2, s2, g2, d2⟩ := h2
  refine ⟨by rw [i2, i1], n1 ++ n2, by rw [l2, l1, List.append_assoc], fun x hx => s2 x (s1 x hx), ?_, ?_⟩
  · intro x hx
    rcases g2 x hx with h | h
    · rcases g1 x h with h | h
      · exact Or.inl h
      · exact Or.inr (List.mem_append_left _ h)
    · exact Or.inr (List.mem_append_right _ h)
  · intro x hx
    rcases List.mem_append.mp hx with h | h
    · exact d1 x h
    · exact fun hc => d2 x h (s1 x hc)

theorem evalNode_spec (preds : Node → List Node) (fuel : Nat) :
    ∀ (n : Node) (c : Cache) (pend : List Node), c.WFp pend →
      (evalNode preds fuel n c).WFp pend ∧ Grows c (evalNode preds fuel n c) := by
  induction fuel with
  | zero => intro n c pend h; exact ⟨h, Grows.refl c⟩
  | succ fuel ih =>
    intro n c pend h
    unfold evalNode
    by_cases hn : n ∈ c.held
    · rw [if_pos hn]; exact ⟨h, Grows.refl c⟩
    · rw [if_neg hn]
      -- the calls made by the formula of `n`
      have fold : ∀ (ps : List Node) (c0 : Cache), c0.WFp (n :: pend) → n ∉ c0.inputs →
          (ps.foldl (fun c p => (evalNode preds fuel p c).addEdge p n) c0).WFp (n :: pend) ∧
          Grows c0 (ps.foldl (fun c p => (evalNode preds fuel p c).addEdge p n) c0) := by
        intro ps
        induction ps with
        | nil => intro c0 h0 _; exact ⟨h0, Grows.refl c0⟩
        | cons p ps ihp =>
          intro c0 h0 hni
          simp only [List.foldl_cons]
          obtain ⟨w1, g1⟩ := ih p c0 (n :: pend) h0
          have hni1 : n ∉ (evalNode preds fuel p c0).inputs := by rw [g1.inputs]; exact hni
          have w2 : ((evalNode preds fuel p c0).addEdge p n).WFp (n :: pend) := by
            refine ⟨w1.inputsHeld, ?_⟩
            intro e he
            simp only [Cache.addEdge, List.mem_append, List.mem_singleton] at he
            rcases he with he | rfl
            · exact w1.edgeHead e he
            · exact ⟨Or.inr (by simp), hni1⟩
          have g2 : Grows c0 ((evalNode preds fuel p c0).addEdge p n) :=
            ⟨g1.inputs, g1.new⟩
          obtain ⟨w3, g3⟩ := ihp _ w2 hni1
          exact ⟨w3, g2.trans g3⟩
      have h0 : (c.enter n).WFp (n :: pend) :=
        ⟨h.inputsHeld, fun e he => ⟨(h.edgeHead e he).1.elim Or.inl (fun hp => Or.inr (List.mem_cons_of_mem _ hp)),
          (h.edgeHead e he).2⟩⟩
      have hni : n ∉ (c.enter n).inputs := fun hc => hn (h.inputsHeld n hc)
      obtain ⟨wf, gf⟩ := fold (preds n) (c.enter n) h0 hni
      generalize (preds n).foldl (fun c p => (evalNode preds fuel p c).addEdge p n) (c.enter n) = cf
        at wf gf
      obtain ⟨gi, new, gl, gs, gg, gd⟩ := gf
      refine ⟨⟨?_, ?_⟩, ⟨gi, n :: new, ?_, ?_, ?_, ?_⟩⟩
      · intro x hx
        exact List.mem_append_left _ (wf.inputsHeld x hx)
      · intro e he
        have := wf.edgeHead e he
        refine ⟨?_, this.2⟩
        simp only [Cache.store, List.mem_append, List.mem_singleton]
        rcases this.1 with h1 | h1
        · exact Or.inl (Or.inl h1)
        · rcases List.mem_cons.mp h1 with h1 | h1
          · exact Or.inl (Or.inr h1)
          · exact Or.inr h1
      · simp only [Cache.store, gl, Cache.enter, List.append_assoc, List.singleton_append]
      · intro x hx
        exact List.mem_append_left _ (gs x hx)
      · intro x hx
        simp only [Cache.store, List.mem_append, List.mem_singleton] at hx
        rcases hx with hx | hx
        · rcases gg x hx with h1 | h1
          · exact Or.inl h1
          · exact Or.inr (List.mem_cons_of_mem _ h1)
        · exact Or.inr (by simp [hx])
      · intro x hx
        rcases List.mem_cons.mp hx with rfl | hx
        · exact hn
        · exact gd x hx

theorem traceTargets_spec (preds : Node → List Node) (fuel : Nat) (targets : List Node) (c : Cache)
    (h : c.WF) :
    (traceTargets preds fuel targets c).WF ∧ Grows c (traceTargets preds fuel targets c) := by
  unfold traceTargets
  induction targets generalizing c with
  | nil => exact ⟨h, Grows.refl c⟩
  | cons t ts ih =>
    simp only [List.foldl_cons]
    by_cases ht : t ∈ c.inputs
    · rw [if_pos ht]; exact ih c h
    · rw [if_neg ht]
      obtain ⟨w, g⟩ := evalNode_spec preds fuel t c [] h.toWFp
      obtain ⟨w2, g2⟩ := ih _ w.toWF
      exact ⟨w2, g.trans g2⟩

theorem mem_preHeld {preds : Node → List Node} {fuel : Nat} {targets : List Node} {c : Cache} {p : Node}
    (h : p ∈ preHeld preds fuel targets c) :
    p ∉ calculated preds fuel targets c ∧ p ∉ c.inputs ∧
    ∃ t ∈ targets, t ∉ c.inputs ∧ t ∈ (traceTargets preds fuel targets c).held ∧
      p ∈ withAncs (traceTargets preds fuel targets c).edges t := by
  unfold preHeld at h
  simp only [List.mem_filter, List.mem_eraseDups, List.mem_flatMap, Bool.and_eq_true, Bool.not_eq_true',
    decide_eq_false_iff_not, decide_eq_true_eq] at h
  obtain ⟨⟨t, ⟨ht, hti, hth⟩, hp⟩, h1, h2⟩ := h
  exact ⟨h1, h2, t, ht, hti, hth, hp⟩

theorem preHeld_of {preds : Node → List Node} {fuel : Nat} {targets : List Node} {c : Cache} {p t : Node}
    (ht : t ∈ targets) (hti : t ∉ c.inputs) (hth : t ∈ (traceTargets preds fuel targets c).held)
    (hp : p ∈ withAncs (traceTargets preds fuel targets c).edges t)
    (h1 : p ∉ calculated preds fuel targets c) (h2 : p ∉ c.inputs) : p ∈ preHeld preds fuel targets c := by
  unfold preHeld
  simp only [List.mem_filter, List.mem_eraseDups, List.mem_flatMap, Bool.and_eq_true, Bool.not_eq_true',
    decide_eq_false_iff_not, decide_eq_true_eq]
  exact ⟨⟨t, ⟨ht, hti, hth⟩, hp⟩, h1, h2⟩

/-- **what `generate_actions` leaves, for ANY well-formed cache**: the user inputs are exactly those
it found; every value that is left was there before and is none of the planned elements (so:
everything it calculated itself is cleared again, and so is every value held before that a target
was calculated from – `planned`). -/
theorem generateLeaves_general (preds : Node → List Node) (fuel : Nat) (targets : List Node) (c : Cache)
    (h : c.WF) :
    (generateLeaves preds fuel targets c).WF ∧
    (∀ x, x ∈ (generateLeaves preds fuel targets c).inputs ↔ x ∈ c.inputs) ∧
    (∀ x ∈ (generateLeaves preds fuel targets c).held, x ∈ c.held ∧ x ∉ planned preds fuel targets c) ∧
    (generateLeaves preds fuel targets c).log = (traceTargets preds fuel targets c).log ∧
    (∀ e ∈ (generateLeaves preds fuel targets c).edges, e ∈ (traceTargets preds fuel targets c).edges) := by
  obtain ⟨w1, gi, new, gl, gs, gg, gd⟩ := traceTargets_spec preds fuel targets c h
  have hcalc : calculated preds fuel targets c = new := by
    unfold calculated; rw [gl]; simp
  unfold generateLeaves
  obtain ⟨w3, h3i, h3h, h3l, h3e⟩ := clear_fold (planned preds fuel targets c) (traceTargets preds fuel targets c) w1
  generalize (planned preds fuel targets c).foldl (fun c n => clearAt n c) (traceTargets preds fuel targets c) = c3
    at w3 h3i h3h h3l h3e
  refine ⟨w3, ?_, ?_, h3l, h3e⟩
  · intro x
    rw [h3i, gi]
    refine ⟨fun hx => hx.1, fun hx => ⟨hx, ?_⟩⟩
    intro hp
    unfold planned at hp
    rcases List.mem_append.mp hp with hp | hp
    · rw [hcalc] at hp; exact gd x hp (h.inputsHeld x hx)
    · exact (mem_preHeld hp).2.1 hx
  · intro x hx
    obtain ⟨h1, h2⟩ := h3h x hx
    refine ⟨?_, h2⟩
    rcases gg x h1 with h1 | h1
    · exact h1
    · exact (h2 (by unfold planned; rw [hcalc]; exact List.mem_append_left _ h1)).elim

/-- `generate_actions` leaves the cache as it found it when it held user inputs only: every
value it calculated – and nothing else – is cleared again, for every program, every target list,
every set of user inputs (and any call-depth bound). -/
theorem generateLeaves_spec (preds : Node → List Node) (fuel : Nat) (targets : List Node) (c : Cache)
    (h : c.WF) (hc : ∀ x ∈ c.held, x ∈ c.inputs) :
    (∀ x, x ∈ (generateLeaves preds fuel targets c).held ↔ x ∈ c.held) ∧
    (∀ x, x ∈ (generateLeaves preds fuel targets c).inputs ↔ x ∈ c.inputs) ∧
    (generateLeaves preds fuel targets c).edges = [] := by
  obtain ⟨w3, hin, hheld, _, _⟩ := generateLeaves_general preds fuel targets c h
  refine ⟨?_, hin, ?_⟩
  · intro x
    exact ⟨fun hx => (hheld x hx).1, fun hx => w3.inputsHeld x ((hin x).mpr (hc x hx))⟩
  · rw [List.eq_nil_iff_forall_not_mem]
    intro e he
    have := w3.edgeHead e he
    exact this.2 ((hin _).mpr (hc _ (hheld _ this.1).1))


end MxModel.CalcSteps
