import MxModel.Proofs.ExecGraph
import MxModel.Proofs.ExecFrame
/-!
# Value edits and top-level calls preserve the graph invariant

Any removal of a set of graph nodes together with the values of its element nodes (which is
what `clear_with_descs`, `clear_obj`, `clear_all_values`, `clear_value_at` do, whatever set
they compute) keeps graph and cache in agreement; assigning a value adds an input node with
no predecessors.
-/
namespace MxModel.Exec

variable {env : Env} {lt : Node → Node → Prop}

theorem lookup_dropValues (d : List (Node × Val)) (ns : List Node) (m : Node) :
    lookup (d.filter (fun e => !ns.contains e.1)) m = if ns.contains m then none else lookup d m := by
  induction d with
  | nil => simp
  | cons e rest ih =>
    obtain ⟨k, v⟩ := e
    by_cases hk : ns.contains k = true
    · simp only [List.filter, hk, Bool.not_true, lookup_cons, ih]
      by_cases hkm : k = m
      · subst hkm; rw [hk]; simp
      · simp [hkm]
    · have hk' : ns.contains k = false := by simpa using hk
      simp only [List.filter, hk', Bool.not_false, lookup_cons, ih]
      by_cases hkm : k = m
      · subst hkm; rw [hk']; simp
      · simp [hkm]

theorem mem_elemsOf (g : List GNode) (m : Node) : m ∈ elemsOf g ↔ GNode.elem m ∈ g := by
  unfold elemsOf
  simp only [List.mem_filterMap]
  constructor
  · rintro ⟨x, hx, h⟩
    cases x with
    | elem n => simp at h; subst h; exact hx
    | obj c => simp at h
  · intro h; exact ⟨.elem m, h, rfl⟩

/-- remove the nodes `R` from the graph and the values of the element nodes among them -/
def St.removeAll (s : St) (R : List GNode) : St :=
  (s.removeNodes R).dropValues (elemsOf R)

theorem GI.removeAll (g : GI env lt s) (hst : s.stack = []) (R : List GNode) :
    GI env lt (s.removeAll R) := by
  have hlook : ∀ m, lookup (s.removeAll R).data m =
      if (elemsOf R).contains m then none else lookup s.data m := by
    intro m; simp only [St.removeAll, St.dropValues, St.removeNodes]; exact lookup_dropValues _ _ _
  have hgn : ∀ x, x ∈ (s.removeAll R).gn ↔ x ∈ s.gn ∧ x ∉ R := by
    intro x; simp [St.removeAll, St.dropValues, St.removeNodes]
  have hge : ∀ e, e ∈ (s.removeAll R).ge ↔ e ∈ s.ge ∧ e.1 ∉ R ∧ e.2 ∉ R := by
    intro e; simp [St.removeAll, St.dropValues, St.removeNodes]
  have hstack : (s.removeAll R).stack = [] := by simp [St.removeAll, St.dropValues, St.removeNodes, hst]
  have hinp : ∀ m, m ∈ (s.removeAll R).inputs ↔ m ∈ s.inputs ∧ m ∉ elemsOf R := by
    intro m; simp [St.removeAll, St.dropValues, St.removeNodes]
  constructor
  · intro m hm
    obtain ⟨h1, h2⟩ := (hgn _).mp hm
    left
    rw [hlook]
    have : (elemsOf R).contains m = false := by
      simp only [List.contains_eq_mem, decide_eq_false_iff_not, mem_elemsOf]; exact h2
    rw [this]
    rcases g.nodesHeld m h1 with h | h
    · simpa using h
    · rw [hst] at h; cases h
  · intro m hm
    rw [hlook] at hm
    split at hm
    · cases hm
    · rename_i hc
      have hnot : GNode.elem m ∉ R := by
        simp only [List.contains_eq_mem, decide_eq_true_eq, mem_elemsOf] at hc; exact hc
      exact ⟨(hgn _).mpr ⟨(g.heldNodes m hm).1, hnot⟩, (g.heldNodes m hm).2⟩
  · intro m hm; rw [hstack] at hm; cases hm
  · intro a b hab; exact g.edgesOrd a b ((hge _).mp hab).1
  · intro a b hab
    obtain ⟨h1, h2, h3⟩ := (hge _).mp hab
    exact ⟨(hgn _).mpr ⟨(g.edgeNodes a b h1).1, h2⟩, (hgn _).mpr ⟨(g.edgeNodes a b h1).2, h3⟩⟩
  · intro m hm
    obtain ⟨h1, h2⟩ := (hinp m).mp hm
    rw [hlook]
    have : (elemsOf R).contains m = false := by simpa using h2
    rw [this]; simpa using g.inputsHeld m h1
  · intro a m ham hin
    exact g.inputsNoPreds a m ((hge _).mp ham).1 ((hinp m).mp hin).1
  · intro m hm; exact g.elemCached m ((hgn _).mp hm).1

/-- changing only the reference graph does not matter to `GI` -/
theorem GI.of_rg {s : St} (g : GI env lt s) (rg : List (RefId × Node)) : GI env lt { s with rg := rg } :=
  GI.of_sameG (s := s) ⟨rfl, rfl, rfl, rfl, rfl, rfl⟩ g

theorem clearWithDescs_eq (s : St) (n : Node) :
    s.clearWithDescs n = if s.gn.contains (.elem n) then
      { (s.removeAll (s.descsWith (.elem n))) with
          rg := s.rg.filter (fun e => !(elemsOf (s.descsWith (.elem n))).contains e.2) }
    else s := by
  unfold St.clearWithDescs St.removeAll St.rgRemoveReferred St.dropValues St.removeNodes
  split <;> rfl

theorem GI.clearWithDescs (g : GI env lt s) (hst : s.stack = []) (n : Node) :
    GI env lt (s.clearWithDescs n) := by
  rw [clearWithDescs_eq]
  split
  · exact (g.removeAll hst _).of_rg _
  · exact g

theorem clearWithDescs_stack (s : St) (n : Node) : (s.clearWithDescs n).stack = s.stack := by
  rw [clearWithDescs_eq]; split <;> rfl

theorem GI.clearValueAt (g : GI env lt s) (hst : s.stack = []) (n : Node) (ci : Bool) :
    GI env lt (s.clearValueAt n ci) := by
  unfold St.clearValueAt
  split
  · split
    · exact g.clearWithDescs hst n
    · exact g
  · exact g

theorem clearValueAt_stack (s : St) (n : Node) (ci : Bool) : (s.clearValueAt n ci).stack = s.stack := by
  unfold St.clearValueAt
  split
  · split
    · exact clearWithDescs_stack s n
    · rfl
  · rfl

theorem GI.clearAllValues (g : GI env lt s) (hst : s.stack = []) (c : CellId) (ci : Bool) :
    GI env lt (s.clearAllValues c ci) ∧ (s.clearAllValues c ci).stack = [] := by
  unfold St.clearAllValues
  generalize ((s.data.filter (fun e => e.1.1 == c)).map (·.1)) = keys
  induction keys generalizing s with
  | nil => exact ⟨g, hst⟩
  | cons k rest ih =>
    simp only [List.foldl]
    exact ih (g.clearValueAt hst k ci) (by rw [clearValueAt_stack]; exact hst)

theorem GI.clearObj (g : GI env lt s) (hst : s.stack = []) (c : CellId) : GI env lt (s.clearObj c) := by
  unfold St.clearObj
  simp only []
  exact (g.removeAll hst _).of_rg _

theorem mem_reachFrom_seen (ge : List (GNode × GNode)) :
    ∀ (fuel : Nat) (fr seen : List GNode) (a : GNode), a ∈ seen → a ∈ reachFrom ge fuel fr seen := by
  intro fuel
  induction fuel with
  | zero => intro fr seen a h; exact h
  | succ f ih =>
    intro fr seen a h
    simp only [reachFrom]
    split
    · exact h
    · exact ih _ _ a (by simp [h])

theorem clearValueAt_unheld (g : GI env lt s) (n : Node) :
    lookup (s.clearValueAt n true).data n = none := by
  unfold St.clearValueAt
  cases hl : lookup s.data n with
  | none => simp [hl]
  | some v =>
    simp only [hl, Option.isSome_some, if_true, Bool.true_or]
    rw [clearWithDescs_eq]
    have hin : GNode.elem n ∈ s.gn := (g.heldNodes n (by rw [hl]; rfl)).1
    simp only [List.contains_eq_mem, hin, decide_true, if_true]
    simp only [St.removeAll, St.dropValues, St.removeNodes]
    rw [lookup_dropValues]
    have : (elemsOf (s.descsWith (.elem n))).contains n = true := by
      simp only [List.contains_eq_mem, decide_eq_true_eq, mem_elemsOf]
      exact mem_reachFrom_seen _ _ _ _ _ (by simp)
    rw [this]; rfl

/-- a fresh input element enters cache and graph -/
theorem GI.addInput {s1 s' : St} (g : GI env lt s1) (hst1 : s1.stack = []) (n : Node) (v : Val)
    (hc : env.cached n.1 = true) (hun : lookup s1.data n = none)
    (hdata : s'.data = insert s1.data n v) (hstack : s'.stack = [])
    (hgn : ∀ x, x ∈ s'.gn ↔ x ∈ s1.gn ∨ x = .elem n) (hge : s'.ge = s1.ge)
    (hinp : ∀ m, m ∈ s'.inputs ↔ m ∈ s1.inputs ∨ m = n) : GI env lt s' := by
  have hnot : GNode.elem n ∉ s1.gn := by
    intro h
    rcases g.nodesHeld n h with h' | h'
    · rw [hun] at h'; cases h'
    · rw [hst1] at h'; cases h'
  constructor
  · intro m hm
    left
    rw [hdata, lookup_insert]
    split
    · rfl
    · rename_i hmn
      rcases (hgn _).mp hm with h | h
      · rcases g.nodesHeld m h with h' | h'
        · exact h'
        · rw [hst1] at h'; cases h'
      · cases h; exact absurd rfl hmn
  · intro m hm
    rw [hdata, lookup_insert] at hm
    split at hm
    · rename_i h; subst h; exact ⟨(hgn _).mpr (Or.inr rfl), hc⟩
    · exact ⟨(hgn _).mpr (Or.inl (g.heldNodes m hm).1), (g.heldNodes m hm).2⟩
  · intro m hm; rw [hstack] at hm; cases hm
  · intro a b hab; exact g.edgesOrd a b (hge ▸ hab)
  · intro a b hab
    rw [hge] at hab
    exact ⟨(hgn _).mpr (Or.inl (g.edgeNodes a b hab).1), (hgn _).mpr (Or.inl (g.edgeNodes a b hab).2)⟩
  · intro m hm
    rw [hdata, lookup_insert]
    split
    · rfl
    · rename_i hmn
      rcases (hinp m).mp hm with h | h
      · exact g.inputsHeld m h
      · exact absurd h.symm hmn
  · intro a m ham hin
    rw [hge] at ham
    rcases (hinp m).mp hin with h | h
    · exact g.inputsNoPreds a m ham h
    · subst h; exact hnot (g.edgeNodes a _ ham).2
  · intro m hm
    rcases (hgn _).mp hm with h | h
    · exact g.elemCached m h
    · cases h; exact hc

/-- assigning a value to an element of a cached cells -/
theorem GI.setValue (g : GI env lt s) (hst : s.stack = []) (n : Node) (v : Val)
    (hc : env.cached n.1 = true) :
    GI env lt (s.setValue env n v).1 ∧ (s.setValue env n v).1.stack = [] := by
  unfold St.setValue
  have g1 := g.clearValueAt hst n true
  have hst1 : (s.clearValueAt n true).stack = [] := by rw [clearValueAt_stack]; exact hst
  have hun := clearValueAt_unheld g n
  split
  · exact ⟨g, hst⟩
  · simp only []
    generalize s.clearValueAt n true = s1 at g1 hst1 hun
    have hfields : ∀ (s2 : St), s2 = ({ s1 with data := insert s1.data n v } : St).addNode (.elem n) →
        s2.data = insert s1.data n v ∧ s2.stack = s1.stack ∧ s2.ge = s1.ge ∧ s2.inputs = s1.inputs := by
      intro s2 h; subst h
      unfold St.addNode; split <;> exact ⟨rfl, rfl, rfl, rfl⟩
    obtain ⟨hd, hs, he, hi⟩ := hfields _ rfl
    refine ⟨GI.addInput g1 hst1 n v hc hun hd (hs.trans hst1) ?_ he ?_, hs.trans hst1⟩
    · intro x; exact mem_addNode_gn _ _ _
    · intro m
      simp only [hi]
      split
      · rename_i hcont
        simp only [List.contains_eq_mem, decide_eq_true_eq] at hcont
        constructor
        · exact Or.inl
        · rintro (h | rfl); exact h; exact hcont
      · simp


/-- a top-level call from an idle executor preserves the invariant -/
theorem GI.topCall (ho : StrictOrder lt) (hr : Ranked env lt) (g : GI env lt s)
    (hst : s.stack = []) (hidx : s.idx = []) (n : Node) :
    GI env lt (evalTop env n s).2 ∧ (evalTop env n s).2.stack = [] ∧ (evalTop env n s).2.idx = [] ∧
    Ext s (evalTop env n s).2 := by
  unfold evalTop
  cases hl : (if env.cached n.1 = true then lookup s.data n else none) with
  | some v => exact ⟨g, hst, hidx, Ext.refl s⟩
  | none =>
    simp only []
    have hnone : lookup s.data n = none := by
      by_cases hc : env.cached n.1 = true
      · simpa [hc] using hl
      · cases h : lookup s.data n with
        | none => rfl
        | some v => exact absurd (g.heldNodes n (by rw [h]; rfl)).2 hc
    have := runN_graph ho hr (env.maxdepth + 1) n s g
      (by intro j i hji; rw [hidx] at hji; simp at hji) (by simp [hst, hidx])
      (by intro a ha; rw [hst] at ha; cases ha) hnone
    generalize runN env (env.maxdepth + 1) n s = p at this
    obtain ⟨r, s1⟩ := p
    obtain ⟨g1, h1, h2, h3⟩ := this
    cases r with
    | ok v => exact ⟨GI.of_sameG (s := s1) ⟨rfl, rfl, rfl, rfl, rfl, rfl⟩ g1, h1.trans hst, h2.trans hidx, h3⟩
    | err e => exact ⟨GI.of_sameG (s := s1) ⟨rfl, rfl, rfl, rfl, rfl, rfl⟩ g1, h1.trans hst, h2.trans hidx, h3⟩

end MxModel.Exec
