import MxModel.Proofs.ExprBindSpec
import MxModel.Proofs.ItemSpaceBind
/-!
# `bindKey` (exec layer) = `ItemSpace.bindArgs` (C07 kernel) under index ↦ name

The two models of `node._bind_args` – `Exec.bindKey` (parameters by index, values `Val`, defaults as
the list of the trailing defaults) and `ItemSpace.bindArgs` (parameters by name with an optional
default each, values `Int`; C07: `bind_iff`, `bind_canonical`) – agree for every signature and every
spelling, under ANY injective naming of the parameters (`nm : Nat → String`; the driver and the harness
use `"a" ++ toString i`) and the embedding `Int → Val` (`Val.int`):

`bindKey_eq_bindArgs`:
`bindKey a (dflt.map .int) (pos.map .int) (kw.map (i, v) ↦ (i, .int v)) =
  (bindArgs (sigOf nm a dflt) pos (kw.map (i, v) ↦ (nm i, v))).map (·.map .int)`.

(`None` values of the exec layer have no counterpart in the C07 kernel, whose values are integers; for
them `bindKey_iff` is the specification.)
-/
namespace MxModel.Exec
open MxModel

/-- parameter `i` of the signature with `a` parameters whose last `dflt.length` have the defaults `dflt` -/
def paramOf (nm : Nat → String) (a : Nat) (dflt : List Int) (i : Nat) : ItemSpace.Param :=
  ⟨nm i, if a ≤ i + dflt.length then dflt[i + dflt.length - a]? else none⟩

def sigOf (nm : Nat → String) (a : Nat) (dflt : List Int) : ItemSpace.Sig :=
  (List.range' 0 a).map (paramOf nm a dflt)

def kwNamed (nm : Nat → String) (kw : List (Nat × Int)) : ItemSpace.KwArgs := kw.map (fun e => (nm e.1, e.2))
def kwVals (kw : List (Nat × Int)) : List (Nat × Val) := kw.map (fun e => (e.1, Val.int e.2))

variable {nm : Nat → String}

theorem nodup_map_nm (hinj : ∀ i j, nm i = nm j → i = j) : ∀ (l : List Nat), (l.map nm).Nodup ↔ l.Nodup
  | [] => by simp
  | x :: xs => by
    simp only [List.map_cons, List.nodup_cons, nodup_map_nm hinj xs, List.mem_map]
    constructor
    · rintro ⟨h1, h2⟩; exact ⟨fun hx => h1 ⟨x, hx, rfl⟩, h2⟩
    · rintro ⟨h1, h2⟩
      refine ⟨?_, h2⟩
      rintro ⟨y, hy, hxy⟩
      exact h1 (hinj y x hxy ▸ hy)

theorem kwKeys_named (kw : List (Nat × Int)) : ItemSpace.kwKeys (kwNamed nm kw) = (kw.map (·.1)).map nm := by
  simp [ItemSpace.kwKeys, kwNamed, List.map_map, Function.comp_def]

theorem kwVals_keys (kw : List (Nat × Int)) : (kwVals kw).map (·.1) = kw.map (·.1) := by
  simp [kwVals, List.map_map, Function.comp_def]

theorem mem_keys_named (hinj : ∀ i j, nm i = nm j → i = j) (kw : List (Nat × Int)) (i : Nat) :
    nm i ∈ ItemSpace.kwKeys (kwNamed nm kw) ↔ i ∈ kw.map (·.1) := by
  rw [kwKeys_named, List.mem_map]
  constructor
  · rintro ⟨j, hj, hji⟩; exact hinj j i hji ▸ hj
  · intro h; exact ⟨i, h, rfl⟩

theorem kwVal_named (hinj : ∀ i j, nm i = nm j → i = j) : ∀ (kw : List (Nat × Int)) (i : Nat),
    kwVal (kwVals kw) i = (ItemSpace.kwFind (kwNamed nm kw) (nm i)).map Val.int
  | [], i => rfl
  | (j, v) :: kw, i => by
    have ih := kwVal_named hinj kw i
    unfold kwVal at ih ⊢
    simp only [kwVals, kwNamed, List.map_cons, List.find?_cons, ItemSpace.kwFind] at ih ⊢
    by_cases hji : j = i
    · subst hji; simp
    · have h1 : (j == i) = false := by simpa using hji
      have h2 : ¬ nm j = nm i := fun h => hji (hinj j i h)
      simp only [h1, h2, if_false]
      exact ih

theorem sigOf_length (nm : Nat → String) (a : Nat) (dflt : List Int) : (sigOf nm a dflt).length = a := by
  simp [sigOf]

theorem sigOf_drop (nm : Nat → String) (a : Nat) (dflt : List Int) (n : Nat) :
    (sigOf nm a dflt).drop n = (List.range' n (a - n)).map (paramOf nm a dflt) := by
  unfold sigOf
  rw [← List.map_drop, List.drop_range']
  simp

theorem names_sigOf (nm : Nat → String) (a : Nat) (dflt : List Int) :
    ItemSpace.names (sigOf nm a dflt) = (List.range' 0 a).map nm := by
  simp [ItemSpace.names, sigOf, List.map_map, Function.comp_def, paramOf]

theorem names_sigOf_nodup (hinj : ∀ i j, nm i = nm j → i = j) (a : Nat) (dflt : List Int) :
    (ItemSpace.names (sigOf nm a dflt)).Nodup := by
  rw [names_sigOf, nodup_map_nm hinj]
  exact List.nodup_range'

theorem paramOf_dflt_none (nm : Nat → String) (a : Nat) (dflt : List Int) (i : Nat) (hi : i < a) :
    (paramOf nm a dflt i).dflt = none ↔ i + dflt.length < a := by
  unfold paramOf
  simp only []
  by_cases h : a ≤ i + dflt.length
  · have h3 : i + dflt.length - a < dflt.length := by omega
    simp only [h, if_true, List.getElem?_eq_getElem h3]
    constructor
    · intro hn; cases hn
    · intro hlt; omega
  · simp only [h, if_false, true_iff]; omega

/-- **what Python requires of a spelling is the same in both models** -/
theorem binds_iff_accepts (hinj : ∀ i j, nm i = nm j → i = j) (a : Nat) (dflt pos : List Int)
    (kw : List (Nat × Int)) :
    Binds a (dflt.map .int) (pos.map .int) (kwVals kw) ↔
      ItemSpace.Accepts (sigOf nm a dflt) pos (kwNamed nm kw) := by
  unfold ItemSpace.Accepts
  rw [sigOf_length, sigOf_drop, kwKeys_named, nodup_map_nm hinj]
  constructor
  · intro hb
    have h1 := hb.noSurplus
    have h2 := hb.kwDistinct
    simp only [List.length_map] at h1
    rw [kwVals_keys] at h2
    refine ⟨h2, h1, ?_, ?_⟩
    · intro k hk
      obtain ⟨i, hi, rfl⟩ := List.mem_map.mp hk
      obtain ⟨e, he, rfl⟩ := List.mem_map.mp hi
      have := hb.kwKnown (e.1, .int e.2) (List.mem_map.mpr ⟨e, he, rfl⟩)
      simp only [List.length_map] at this
      simp only [ItemSpace.names, List.map_map, List.mem_map, List.mem_range'_1]
      exact ⟨e.1, ⟨this.1, by omega⟩, rfl⟩
    · intro p hp hd
      obtain ⟨i, hi, rfl⟩ := List.mem_map.mp hp
      rw [List.mem_range'_1] at hi
      have hlt := (paramOf_dflt_none nm a dflt i (by omega)).mp hd
      have := hb.supplied i (by simpa using hi.1) (by simpa using hlt)
      rw [kwVals_keys] at this
      exact List.mem_map.mpr ⟨i, this, rfl⟩
  · rintro ⟨h1, h2, h3, h4⟩
    refine ⟨by simpa using h2, by rw [kwVals_keys]; exact h1, ?_, ?_⟩
    · intro e he
      obtain ⟨e0, he0, rfl⟩ := List.mem_map.mp he
      have := h3 (nm e0.1) (List.mem_map.mpr ⟨e0.1, List.mem_map.mpr ⟨e0, he0, rfl⟩, rfl⟩)
      simp only [ItemSpace.names, List.map_map, List.mem_map, List.mem_range'_1] at this
      obtain ⟨j, hj, hjn⟩ := this
      have hje : j = e0.1 := hinj _ _ hjn
      subst hje
      simp only [List.length_map]
      omega
    · intro i hi hd
      simp only [List.length_map] at hi hd
      have hp : paramOf nm a dflt i ∈ (List.range' pos.length (a - pos.length)).map (paramOf nm a dflt) :=
        List.mem_map.mpr ⟨i, by rw [List.mem_range'_1]; omega, rfl⟩
      have := h4 _ hp ((paramOf_dflt_none nm a dflt i (by omega)).mpr hd)
      have hk : nm i ∈ ItemSpace.kwKeys (kwNamed nm kw) := by rw [kwKeys_named]; exact this
      rw [kwVals_keys]
      exact (mem_keys_named hinj kw i).mp hk

/-- the parameter-wise values of the C07 specification, parameter by index -/
theorem specKey_range (nm : Nat → String) (a : Nat) (dflt : List Int) (kwN : ItemSpace.KwArgs) :
    ∀ (len s : Nat) (args : List Int),
      ItemSpace.specKey ((List.range' s len).map (paramOf nm a dflt)) args kwN =
        (List.range' s len).map (fun i =>
          if i - s < args.length then args[i - s]?.getD 0
          else (ItemSpace.kwFind kwN (nm i)).getD ((paramOf nm a dflt i).dflt.getD 0))
  | 0, s, args => by simp [ItemSpace.specKey]
  | len + 1, s, [] => by
    have ih := specKey_range nm a dflt kwN len (s + 1) []
    simp only [List.range'_succ, List.map_cons, ItemSpace.specKey, ih, List.length_nil, Nat.not_lt_zero, if_false]
    rfl
  | len + 1, s, a0 :: as => by
    have ih := specKey_range nm a dflt kwN len (s + 1) as
    simp only [List.range'_succ, List.map_cons, ItemSpace.specKey, ih, Nat.sub_self, List.length_cons,
      Nat.zero_lt_succ, if_true, List.getElem?_cons_zero, Option.getD_some, List.cons.injEq, true_and]
    apply List.map_congr_left
    intro i hi
    rw [List.mem_range'_1] at hi
    have h1 : i - s = (i - (s + 1)) + 1 := by omega
    rw [h1, List.getElem?_cons_succ]
    by_cases h2 : i - (s + 1) < as.length
    · have : i - (s + 1) + 1 < as.length + 1 := by omega
      simp [h2, this]
    · have : ¬ i - (s + 1) + 1 < as.length + 1 := by omega
      simp [h2, this]

/-- **the bound keys are the same** (for spellings that bind) -/
theorem canonKey_eq_specKey (hinj : ∀ i j, nm i = nm j → i = j) (a : Nat) (dflt pos : List Int)
    (kw : List (Nat × Int)) (hb : Binds a (dflt.map .int) (pos.map .int) (kwVals kw)) :
    canonKey a (dflt.map .int) (pos.map .int) (kwVals kw) =
      (ItemSpace.specKey (sigOf nm a dflt) pos (kwNamed nm kw)).map Val.int := by
  unfold canonKey sigOf
  rw [specKey_range, List.map_map, List.range_eq_range']
  apply List.map_congr_left
  intro i hi
  rw [List.mem_range'_1] at hi
  simp only [Function.comp_def, Nat.sub_zero]
  unfold canonSlot
  simp only [List.length_map]
  by_cases h1 : i < pos.length
  · simp only [h1, if_true, List.getElem?_map, List.getElem?_eq_getElem h1, Option.map_some, Option.getD_some]
  · simp only [h1, if_false]
    rw [kwVal_named hinj kw i]
    cases hf : ItemSpace.kwFind (kwNamed nm kw) (nm i) with
    | some v => simp
    | none =>
      simp only [Option.map_none, Option.getD_none]
      -- not given positionally, not by keyword: the parameter has a default
      have hnk : i ∉ (kwVals kw).map (·.1) := by
        rw [kwVals_keys]
        intro hm
        have := (mem_keys_named hinj kw i).mpr hm
        rw [← ItemSpace.kwFind_isSome_iff, hf] at this
        cases this
      have hd : a ≤ i + dflt.length := by
        apply Classical.byContradiction
        intro hlt
        exact hnk (hb.supplied i (by simp; omega) (by simp; omega))
      have h3 : i + dflt.length - a < dflt.length := by omega
      simp only [paramOf, hd, if_true, List.getElem?_map, List.getElem?_eq_getElem h3, Option.map_some,
        Option.getD_some]

/-- **`bindKey` (exec layer) and `bindArgs` (C07 kernel) are the same function** under index ↦ name, for
every signature with integer defaults and every spelling with integer values. -/
theorem bindKey_eq_bindArgs (hinj : ∀ i j, nm i = nm j → i = j) (a : Nat) (dflt pos : List Int)
    (kw : List (Nat × Int)) :
    bindKey a (dflt.map .int) (pos.map .int) (kwVals kw) =
      (ItemSpace.bindArgs (sigOf nm a dflt) pos (kwNamed nm kw)).map (·.map Val.int) := by
  have hwf := names_sigOf_nodup hinj a dflt
  by_cases hb : Binds a (dflt.map .int) (pos.map .int) (kwVals kw)
  · have hacc := (binds_iff_accepts hinj a dflt pos kw).mp hb
    rw [bindKey_of_binds hb,
      (ItemSpace.bind_eq_some_iff (sigOf nm a dflt) hwf pos (kwNamed nm kw) _).mpr ⟨hacc, rfl⟩,
      canonKey_eq_specKey hinj a dflt pos kw hb]
    rfl
  · rw [(bindKey_eq_none_iff _ _ _ _).mpr hb]
    cases hr : ItemSpace.bindArgs (sigOf nm a dflt) pos (kwNamed nm kw) with
    | none => rfl
    | some key =>
      exact absurd ((binds_iff_accepts hinj a dflt pos kw).mpr
        ((ItemSpace.bind_eq_some_iff (sigOf nm a dflt) hwf pos (kwNamed nm kw) key).mp hr).1) hb

/-! Non-vacuity: an injective naming (`i ↦ "a…a"`, `i` letters); `rate(t, base=100, step=10)`. -/
def nmA (i : Nat) : String := String.ofList (List.replicate i 'a')

theorem nmA_inj : ∀ i j, nmA i = nmA j → i = j := by
  intro i j h
  have := congrArg (fun s => s.toList.length) h
  simpa [nmA] using this

example : sigOf nmA 3 [100, 10] = [⟨"", none⟩, ⟨"a", some 100⟩, ⟨"aa", some 10⟩] := by decide

example : bindKey 3 [.int 100, .int 10] [.int 3] [(2, .int 5)] =
    (ItemSpace.bindArgs (sigOf nmA 3 [100, 10]) [3] [("aa", 5)]).map (·.map Val.int) :=
  bindKey_eq_bindArgs nmA_inj 3 [100, 10] [3] [(2, 5)]

end MxModel.Exec
