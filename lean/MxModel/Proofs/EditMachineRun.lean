import MxModel.Proofs.EditMachineOps3
/-!
# Every operation of the combined machine keeps the certificate invariant; histories

`CIW P lt w`: the structural invariant (`SM.Inv`, `run_inv`), every member has an identity, and the
certificate invariant `CI` for the definitions READ OFF THE CURRENT STRUCTURE (`W.env`).

`step_ciw`: one operation, given that its clearing covers what it changes (`StepCovers`) – which is a
theorem for EVERY operation of the machine (`stepCovers_of_inv`: from `SM.Inv` alone: `new_space`,
`del space`, `new_cells`, `set_cells_property`, `del_cells`, `rename_cells`, `space.name = v`, `del_ref`,
`add_bases`, `remove_bases`), and decidable besides (`stepCovers_of_check`: the Boolean
`Edit.stepCovered`, which the driver evaluates at every step as a cross-check).
-/
namespace MxModel.Edit
open MxModel.Exec MxModel.C02 MxModel.SM

variable (P : Params) (lt : Node → Node → Prop)

structure CIW (w : W) : Prop where
  inv : SM.Inv w.sm
  alloc : AllocOK w.tabs w.sm
  ci : CI (w.env P) lt w.ex
  /-- the fragment the theorems speak about: no model-level reference (`stepG` has them) -/
  noglob : w.sm.globals = []

theorem refPay_noglobals (t : Tabs) (st : SM.St) (hg : st.globals = []) (q : Path) (x : String) :
    refPay t st q x = (st.mem .refs q x).map (·.payload) := by
  unfold refPay gpay
  cases st.mem .refs q x with
  | some m => rfl
  | none => simp [hg]

/-- without model-level references a slot is the member entry: the clauses about members give those about slots -/
theorem coversG_of_covers {t : Tabs} {st st' : SM.St} {cl : List Clear} (h : Covers t st st' cl)
    (hg : st.globals = []) (hg' : st'.globals = []) : CoversG t st st' cl := by
  have hne : ∀ q x, refPay t st' q x ≠ refPay t st q x → st'.mem .refs q x ≠ st.mem .refs q x := by
    intro q x hne heq
    apply hne
    rw [refPay_noglobals t st' hg', refPay_noglobals t st hg, heq]
  refine ⟨h.ns, h.cells, fun q x hd => h.refsNs q x (hne q x hd), ?_⟩
  intro q x hd hs
  apply h.refsAttr q x (hne q x hd)
  rw [refPay_noglobals t st hg] at hs
  simpa using hs

theorem globals_apply (kw : List String) (st st' : SM.St) (hi : SM.Inv st) (o : SM.Op) (hsup : supported o = true)
    (hop : st.apply kw o = some st') (hg : st.globals = []) : st'.globals = [] := by
  have heff := apply_spec kw st st' (keysOK_of_inv hi) o hop
  cases o with
  | newSpace parent name bases refs => rw [heff.2.2.1, hg]
  | delSpace p => rw [heff.globals, hg]
  | newCells p name fname v => rw [heff.1.globals, hg]
  | setFormula p name v => rw [heff.1.globals, hg]
  | delCells p name => rw [heff.1.globals, hg]
  | renameCells p old new => rw [heff.1.globals, hg]
  | addBases p bs => rw [heff.globals, hg]
  | removeBases p bs => rw [heff.globals, hg]
  | setRef p name v => rw [heff.1.globals, hg]
  | delRef p name => rw [heff.1.globals, hg]
  | setGlobal name => cases hsup
  | delGlobal name => cases hsup

/-- the clearing of the step covers what the step changes -/
def StepCovers (w : W) : Op → Prop
  | .struct o => supported o = true → ∀ st', w.sm.apply P.kw o = some st' →
      Covers (w.tabs.grow st') w.sm st' (clearing P.kw (w.tabs.grow st') w.sm st' o)
  | _ => True

theorem stepCovers_of_check (w : W) (op : Op) (hs : ∀ o, op = .struct o → supported o = true)
    (h : stepCovered P w op = true) : StepCovers P w op := by
  cases op with
  | struct o =>
    intro _ st' hop
    simp only [stepCovered, hs o rfl, if_true, hop] at h
    exact covered_sound _ _ _ _ h
  | _ => trivial

/-- **coverage from the structural invariant alone** -/
theorem stepCovers_of_inv (w : W) (op : Op) (hi : SM.Inv w.sm) : StepCovers P w op := by
  cases op with
  | struct o =>
    intro hsup st' hop
    have hi' := inv_apply P.kw w.sm st' o hi hop
    cases o with
    | newSpace parent name bases refs => exact covers_newSpace P.kw _ hi hi' parent name bases refs hop
    | delSpace p => exact covers_delSpace P.kw _ hi hi' p hop
    | newCells p name fname v => exact covers_newCells P.kw _ hi hi' p name fname v hop
    | setFormula p name v => exact covers_setFormula P.kw _ hi hi' p name v hop
    | delCells p name => exact covers_delCells P.kw _ hi hi' p name hop
    | renameCells p old new => exact covers_renameCells P.kw _ hi hi' p old new hop
    | addBases p bs => exact covers_addBases P.kw _ hi hi' p bs hop
    | removeBases p bs => exact covers_removeBases P.kw _ hi hi' p bs hop
    | setRef p name v => exact covers_setRef P.kw _ hi hi' p name v hop
    | delRef p name => exact covers_delRef P.kw _ hi hi' p name hop
    | setGlobal name => cases hsup
    | delGlobal name => cases hsup
  | _ => trivial

theorem alive_of_member {w : W} (ha : AllocOK w.tabs w.sm) (q : Path) (n : String)
    (h : (w.sm.mem .cells q n).isSome = true) : (w.env P).alive (w.tabs.cid q n) = true := by
  cases hm : w.sm.mem .cells q n with
  | none => rw [hm] at h; cases h
  | some m =>
    exact (alive_iff P w.tabs w.sm _).mpr ⟨q, n, m, cellOf_cid w.tabs q n (ha.cells q n h), hm, rfl⟩

variable {P lt}

/-- **one operation of the combined machine keeps the invariant** -/
theorem step_ciw (ho : StrictOrder lt) (w : W) (op : Op) (hw : WF (w.env P) lt) (h : CIW P lt w)
    (hc : StepCovers P w op) : CIW P lt (step P w op) := by
  cases op with
  | struct o =>
    simp only [step]
    split
    · cases hop : w.sm.apply P.kw o with
      | none => exact h
      | some st' =>
        simp only
        have hext := ext_grow w.tabs st'
        have hw' := wf_ext P hext h.alloc hw
        have hci' := ci_ext P hext h.alloc hw h.ci
        rename_i hsup
        have hg' := globals_apply P.kw w.sm st' h.inv o hsup hop h.noglob
        exact ⟨inv_apply P.kw w.sm st' o h.inv hop, allocOK_grow w.tabs st' h.alloc.slots,
          struct_ci P hw' hci' (coversG_of_covers (hc hsup st' hop) h.noglob hg'), hg'⟩
    · exact h
  | eval q n key =>
    simp only [step]
    split
    · rename_i hm
      exact ⟨h.inv, h.alloc, evalTop_ci ho hw.ranked hw.noCatch _ (alive_of_member P h.alloc q n hm) h.ci, h.noglob⟩
    · exact h
  | setValue q n key v =>
    simp only [step]
    split
    · rename_i hm
      simp only [Bool.and_eq_true] at hm
      exact ⟨h.inv, h.alloc, setValue_ci h.ci _ v hm.2 (alive_of_member P h.alloc q n hm.1), h.noglob⟩
    · exact h
  | clearAt q n key => exact ⟨h.inv, h.alloc, clearValueAt_ci h.ci _ true, h.noglob⟩
  | clear q n => exact ⟨h.inv, h.alloc, clearAllValues_ci h.ci _ false, h.noglob⟩
  | clearAll q n => exact ⟨h.inv, h.alloc, clearAllValues_ci h.ci _ true, h.noglob⟩

/-! ## histories -/

variable (P lt)

/-- the definitions stay in the regime after every operation -/
def Admissible : W → List Op → Prop
  | _, [] => True
  | w, op :: ops => WF ((step P w op).env P) lt ∧ Admissible (step P w op) ops

theorem ciw_empty : CIW P lt {} := ⟨inv_empty, allocOK_empty, CI.empty _ lt, rfl⟩

theorem wf_empty : WF (({} : W).env P) lt := by
  have hf : ∀ n, (({} : W).env P).formula n = .raise errDead := by
    intro n
    simp [W.env, envOf, cellInfo, Tabs.cellOf]
  refine ⟨?_, ?_, ?_⟩
  · intro n; rw [hf]; trivial
  · intro n; rw [hf]; trivial
  · intro n; rw [hf]; trivial

variable {P lt}

theorem run_ciw (ho : StrictOrder lt) : ∀ (ops : List Op) (w : W), WF (w.env P) lt → CIW P lt w →
    Admissible P lt w ops → CIW P lt (run P w ops) ∧ WF ((run P w ops).env P) lt := by
  intro ops
  induction ops with
  | nil => intro w hw h _; exact ⟨h, hw⟩
  | cons op rest ih =>
    intro w hw h hadm
    obtain ⟨h2, h3⟩ := hadm
    exact ih (step P w op) h2 (step_ciw ho w op hw h (stepCovers_of_inv P w op h.inv)) h3

end MxModel.Edit
