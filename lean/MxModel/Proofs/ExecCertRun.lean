import MxModel.Proofs.ExecCertFrame
import MxModel.Proofs.ExecGraph
/-!
# Evaluation maintains the certificates (T1), part 1: formula bodies and `eval_node`

Regime: terminating programs (`Ranked env lt`, as in C06/C08) in which no formula turns a
failure into a value (`NoCatchEnv`).  No hypothesis about the depth limit is needed here: a
`DeepReferenceError` is a failure like any other and, uncaught, stores nothing.
-/
namespace MxModel.Exec

variable {env : Env} {lt : Node → Node → Prop}

/-- what holds at every point of an evaluation -/
structure Mid (env : Env) (lt : Node → Node → Prop) (s : St) : Prop where
  gi : GI env lt s
  idxok : IdxOK env s.stack s.idx
  len : s.idx.length = s.stack.length
  refsBelow : RefsBelow s
  certs : CInv env s

/-- the level of the frame that receives the reads an uncached callee hands over -/
def retLvl (s : St) : Option Nat := if s.stack = [] then none else some (s.stack.length - 1)

/-- the edges into the nearest cached caller `T` that a step added are justified by `evs` -/
def NewIn (s s' : St) (T : Option Node) (evs : List FEv) : Prop :=
  ∀ a t, T = some t → (a, GNode.elem t) ∈ s'.ge → (a, GNode.elem t) ∈ s.ge ∨ JustE evs a

theorem NewIn.mono {s s' : St} {T : Option Node} {evs evs' : List FEv} (h : NewIn s s' T evs)
    (hsub : ∀ ev ∈ evs, ev ∈ evs') : NewIn s s' T evs' :=
  fun a t hT he => (h a t hT he).imp id (JustE.mono hsub)

theorem NewIn.trans {a b c : St} {T : Option Node} {e1 e2 : List FEv} (h1 : NewIn a b T e1)
    (h2 : NewIn b c T e2) : NewIn a c T (e1 ++ e2) := by
  intro x t hT he
  rcases h2 x t hT he with h | h
  · exact (h1 x t hT h).imp id (JustE.mono (fun ev hm => List.mem_append_left _ hm))
  · exact Or.inr (JustE.mono (fun ev hm => List.mem_append_right _ hm) h)

theorem NewIn.of_ge {s s' : St} (T : Option Node) (evs : List FEv) (h : s'.ge = s.ge) : NewIn s s' T evs :=
  fun _ _ _ he => Or.inl (h ▸ he)

/-- what a callee that returned `w` leaves for the trace of its caller -/
def Ret (env : Env) (s s' : St) (T : Option Node) (lvl : Option Nat) (m : Node) (w : Val) : Prop :=
  (env.cached m.1 = true ∧ PendEv env s' T lvl (.call m w) ∧ NewIn s s' T [.call m w]) ∨
  (env.cached m.1 = false ∧ ∃ sub, Replay env sub (env.formula m) w ∧
    (∀ ev ∈ flat m.1 sub, PendEv env s' T lvl ev) ∧ PendEv env s' T lvl (.ucall m) ∧
    NewIn s s' T (.ucall m :: flat m.1 sub))

structure Post (env : Env) (lt : Node → Node → Prop) (s s' : St) : Prop where
  mid : Mid env lt s'
  idx : s'.idx = s.idx
  presH : PresH s s'
  presP : PresP s s'
  inputs : s'.inputs = s.inputs
  body : BodyRel s s'
  /-- among the executing elements, only the nearest cached caller gets new edges -/
  stackIn : ∀ a t, t ∈ s.stack → (a, GNode.elem t) ∈ s'.ge → (a, GNode.elem t) ∈ s.ge ∨ s.edgeTarget = some t

theorem edgeTarget_congr' {s s' : St} (h1 : s'.stack = s.stack) (h2 : s'.idx = s.idx) :
    s'.edgeTarget = s.edgeTarget := by
  unfold St.edgeTarget; rw [h1, h2]

theorem Post.trans {a b c : St} (h1 : Post env lt a b) (h2 : Post env lt b c) : Post env lt a c :=
  ⟨h2.mid, h2.idx.trans h1.idx, h1.presH.trans h2.presH, h1.presP.trans h2.presP,
   h2.inputs.trans h1.inputs, h1.body.trans h2.body, fun x t ht he => by
     rcases h2.stackIn x t (by rw [h1.presP.stack]; exact ht) he with h | h
     · exact h1.stackIn x t ht h
     · exact Or.inr (by rw [← edgeTarget_congr' h1.presP.stack h1.idx]; exact h)⟩

/-- a step that touches neither cache nor graphs nor the frames -/
theorem Post.of_same {s s' : St} (hm : Mid env lt s) (hg : SameG s s') (hc : SameC s s')
    (hb : BodyRel s s') : Post env lt s s' := by
  refine ⟨⟨GI.of_sameG hg hm.gi, by rw [hg.stack, hg.idx]; exact hm.idxok, by rw [hg.stack, hg.idx]; exact hm.len,
    hb.refsBelow hm.refsBelow, hm.certs.of_sameC hc⟩, hg.idx, PresH.of_sameC hc, ?_, hc.inputs, hb,
    fun _ _ _ he => Or.inl (hc.ge ▸ he)⟩
  refine ⟨Ext.of_data hc.data, hg.stack, fun a t _ h _ => by rw [hc.ge]; exact h, ?_⟩
  obtain ⟨new, hnew, _⟩ := hb.refs
  intro e he; rw [hnew]; exact List.mem_append_left _ he

def CalleeC (env : Env) (lt : Node → Node → Prop) (f : Node → St → Res × St) : Prop :=
  ∀ m s, Mid env lt s → (∀ a ∈ s.stack, lt m a) →
    Post env lt s (f m s).2 ∧
    ∀ w, (f m s).1 = .ok w → Ret env s (f m s).2 s.edgeTarget (retLvl s) m w

def EvalC (env : Env) (lt : Node → Node → Prop) (f : Node → St → Res × St) : Prop :=
  ∀ m s, Mid env lt s → (∀ a ∈ s.stack, lt m a) → lookup s.data m = none →
    Post env lt s (f m s).2 ∧
    ∀ w, (f m s).1 = .ok w → Ret env s (f m s).2 s.edgeTarget (retLvl s) m w

theorem sameC_noteRead (s : St) (a : Bool) (r : RefId) : SameC s (s.noteRead a r) := by
  unfold St.noteRead; split <;> exact ⟨rfl, rfl, rfl, rfl⟩

theorem sameC_addEdge_data (s : St) (a b : GNode) :
    (s.addEdge a b).data = s.data ∧ (s.addEdge a b).inputs = s.inputs ∧ (s.addEdge a b).rg = s.rg ∧
    (s.addEdge a b).stack = s.stack ∧ (s.addEdge a b).idx = s.idx ∧ (s.addEdge a b).refstack = s.refstack := by
  unfold St.addEdge St.addNode; simp only []; repeat' split
  all_goals exact ⟨rfl, rfl, rfl, rfl, rfl, rfl⟩

/-- adding an edge is a step that keeps everything certificates and pending events need -/
theorem addEdge_pres (s : St) (a : GNode) (t : Node) (ht : ¬ Held s t) :
    PresH s (s.addEdge a (.elem t)) ∧ PresP s (s.addEdge a (.elem t)) := by
  obtain ⟨hd, _, hr, hst, _, hrs⟩ := sameC_addEdge_data s a (.elem t)
  have hge : ∀ e ∈ s.ge, e ∈ (s.addEdge a (.elem t)).ge :=
    fun e he => (mem_addEdge_ge s a (.elem t) e).mpr (Or.inl he)
  refine ⟨⟨Ext.of_data hd, fun _ _ _ _ h => by rw [hd]; exact h, fun _ _ h _ _ => hge _ h,
      fun e he => by rw [hr]; exact he, ?_⟩,
    ⟨Ext.of_data hd, hst, fun _ _ _ h _ => hge _ h, fun e he => by rw [hrs]; exact he⟩⟩
  intro x n hn he
  rcases (mem_addEdge_ge s a (.elem t) _).mp he with h | h
  · exact h
  · cases h; exact absurd hn ht

theorem certs_addEdge (s : St) (a : GNode) (t : Node) (ht : ¬ Held s t) (hc : CInv env s) :
    CInv env (s.addEdge a (.elem t)) :=
  hc.presH (addEdge_pres s a t ht).1 (sameC_addEdge_data s a (.elem t)).2.1
    (fun n v hl hn _ => by rw [(sameC_addEdge_data s a (.elem t)).1] at hl; rw [hn] at hl; cases hl)

theorem retLvl_of_stack {s : St} {base : List Node} {n : Node} (h : s.stack = base ++ [n]) :
    retLvl s = some base.length := by
  unfold retLvl; rw [h]; simp

/-! ### `eval_node` -/

theorem PendEv.of_same {s s' : St} {T : Option Node} {lvl : Option Nat} (hd : s'.data = s.data)
    (hg : s'.ge = s.ge) (hr : s'.refstack = s.refstack) {ev : FEv} (p : PendEv env s T lvl ev) :
    PendEv env s' T lvl ev := by
  cases ev with
  | read c a r x => exact ⟨p.1, fun ha hx l hl => by rw [hr]; exact p.2 ha hx l hl⟩
  | call m w => exact ⟨by rw [hd]; exact p.1, fun t ht => by rw [hg]; exact p.2 t ht⟩
  | ucall m => exact fun t ht => by show _ ∈ s'.ge; rw [hg]; exact p t ht

/-- keeping the caller's exception identity when a call returns changes nothing the certificates
speak about -/
theorem keepExc_cert (s0 s : St) (p : Res × St) (m : Node) (T : Option Node) (lvl : Option Nat)
    (h : Post env lt s p.2 ∧ ∀ w, p.1 = .ok w → Ret env s p.2 T lvl m w) :
    Post env lt s (keepExc s0 p).2 ∧ ∀ w, (keepExc s0 p).1 = .ok w → Ret env s (keepExc s0 p).2 T lvl m w := by
  have ho := keepExc_excOnly s0 p
  refine ⟨h.1.trans (Post.of_same h.1.mid (keepExc_sameG s0 p) ⟨ho.data, ho.inputs, ho.ge, ho.rg⟩
    (BodyRel.of_frameSame (frameSame_keepExc s0 p))), ?_⟩
  intro w hw
  rw [keepExc_fst] at hw
  have hni : ∀ evs, NewIn s p.2 T evs → NewIn s (keepExc s0 p).2 T evs :=
    fun evs hn a t hT he => hn a t hT (ho.ge ▸ he)
  rcases h.2 w hw with ⟨hc, hp, hn⟩ | ⟨hc, sub, hrep, hev, hu, hn⟩
  · exact Or.inl ⟨hc, hp.of_same ho.data ho.ge ho.refstack, hni _ hn⟩
  · exact Or.inr ⟨hc, sub, hrep, fun ev hm => (hev ev hm).of_same ho.data ho.ge ho.refstack,
      hu.of_same ho.data ho.ge ho.refstack, hni _ hn⟩

theorem evalNode_cert (ef : Node → St → Res × St) (hefG : EvalG env lt ef) (hef : EvalC env lt ef) :
    CalleeC env lt (evalNode env ef) := by
  intro m s hm hbelow
  have hgraph := evalNode_graph ef hefG m s hm.gi hm.idxok hm.len hbelow
  unfold evalNode at hgraph ⊢
  by_cases ha : env.alive m.1 = true
  case neg =>
    -- the cells does not exist: the caller's code raises, nothing is touched
    have ha' : env.alive m.1 = false := by simpa using ha
    simp only [ha', Bool.false_eq_true, if_false]
    refine ⟨Post.of_same hm ⟨rfl, rfl, rfl, rfl, rfl, rfl⟩ ⟨rfl, rfl, rfl, rfl⟩
      ⟨rfl, rfl, [], by simp [St.newExc], by simp⟩, ?_⟩
    intro w hw; cases hw
  simp only [ha, if_true] at hgraph ⊢
  by_cases hc : env.cached m.1 = true
  · simp only [hc, if_true] at hgraph ⊢
    cases hl : lookup s.data m with
    | none => simp only [hl] at hgraph ⊢; exact keepExc_cert s s _ m _ _ (hef m s hm hbelow hl)
    | some v =>
      simp only [hl] at hgraph ⊢
      obtain ⟨g', hst', hidx', _⟩ := hgraph
      have hfs := frameSame_hitEdge s m
      have hdata : (s.hitEdge m).data = s.data := (sameCache_hitEdge s m).data
      have hinp : (s.hitEdge m).inputs = s.inputs := (sameCache_hitEdge s m).inputs
      have hunheld : ∀ t, s.edgeTarget = some t → ¬ Held s t := by
        intro t ht hh
        unfold Held at hh
        rw [hm.gi.stackUnheld t (edgeTarget_mem s t ht)] at hh; cases hh
      have hpres : PresH s (s.hitEdge m) ∧ PresP s (s.hitEdge m) ∧ CInv env (s.hitEdge m) := by
        unfold St.hitEdge
        cases ht : s.edgeTarget with
        | some t =>
          exact ⟨(addEdge_pres s _ t (hunheld t ht)).1, (addEdge_pres s _ t (hunheld t ht)).2,
            certs_addEdge s _ t (hunheld t ht) hm.certs⟩
        | none => exact ⟨PresH.refl s, PresP.refl s, hm.certs⟩
      have hgeq : ∀ e, e ∈ (s.hitEdge m).ge → e ∈ s.ge ∨ ∃ t, s.edgeTarget = some t ∧ e = (.elem m, .elem t) := by
        intro e he
        unfold St.hitEdge at he
        cases ht : s.edgeTarget with
        | some t => rw [ht] at he; exact ((mem_addEdge_ge s _ _ e).mp he).imp id (fun h => ⟨t, rfl, h⟩)
        | none => rw [ht] at he; exact Or.inl he
      refine ⟨⟨⟨g', by rw [hst', hidx']; exact hm.idxok, by rw [hst', hidx']; exact hm.len,
          (BodyRel.of_frameSame hfs).refsBelow hm.refsBelow, hpres.2.2⟩, hidx', hpres.1, hpres.2.1, hinp,
          BodyRel.of_frameSame hfs, ?_⟩, ?_⟩
      · intro a t _ he
        rcases hgeq _ he with h | ⟨t', ht', h⟩
        · exact Or.inl h
        · cases h; exact Or.inr ht'
      intro w hw
      cases hw
      left
      refine ⟨hc, ⟨by rw [hdata]; exact hl, ?_⟩, ?_⟩
      · intro t ht
        unfold St.hitEdge
        rw [ht]
        exact (mem_addEdge_ge s _ _ _).mpr (Or.inr rfl)
      · intro a t _ he
        rcases hgeq _ he with h | ⟨t', _, h⟩
        · exact Or.inl h
        · cases h; exact Or.inr (Or.inl ⟨m, v, rfl, by simp⟩)
  · have hc' : env.cached m.1 = false := by simpa using hc
    simp only [hc', Bool.false_eq_true, if_false]
    refine keepExc_cert s s _ m _ _ (hef m s hm hbelow ?_)
    cases hl : lookup s.data m with
    | none => rfl
    | some v => have := (hm.gi.heldNodes m (by rw [hl]; rfl)).2; rw [hc'] at this; cases this

/-! ### formula bodies -/

theorem runBody_cert (ho : StrictOrder lt) (f : Node → St → Res × St) (hfC : CalleeC env lt f)
    (base : List Node) (n : Node) (hbelow : ∀ a ∈ base, lt n a) :
    ∀ (p : Prog), NoCatch p → CallsBelow lt n p → ∀ (s : St), Mid env lt s → s.stack = base ++ [n] →
      Post env lt s (runBody env f p s).2 ∧
      ∀ v, (runBody env f p s).1 = .ok v → ∃ tr, Replay env tr p v ∧
        (∀ ev ∈ flat n.1 tr, PendEv env (runBody env f p s).2 s.edgeTarget (some base.length) ev) ∧
        NewIn s (runBody env f p s).2 s.edgeTarget (flat n.1 tr) := by
  intro p
  induction p with
  | ret v0 =>
    intro _ _ s hm _
    refine ⟨Post.of_same hm ⟨rfl, rfl, rfl, rfl, rfl, rfl⟩ ⟨rfl, rfl, rfl, rfl⟩ (BodyRel.refl s), ?_⟩
    intro v hv
    simp only [runBody, Res.ok.injEq] at hv
    subst hv
    exact ⟨.nil, rfl, by simp [flat], NewIn.of_ge _ _ rfl⟩
  | raise e =>
    intro _ _ s hm _
    simp only [runBody]
    refine ⟨Post.of_same hm ⟨rfl, rfl, rfl, rfl, rfl, rfl⟩ ⟨rfl, rfl, rfl, rfl⟩
      ⟨rfl, rfl, [], by simp [St.newExc], by simp⟩, ?_⟩
    intro v hv; cases hv
  | reraise e =>
    intro _ _ s hm _
    refine ⟨Post.of_same hm ⟨rfl, rfl, rfl, rfl, rfl, rfl⟩ ⟨rfl, rfl, rfl, rfl⟩ (BodyRel.refl s), ?_⟩
    intro v hv; simp [runBody] at hv
  | read a r k ih =>
    intro hnc hcb s hm hs
    simp only [NoCatch] at hnc
    simp only [CallsBelow] at hcb
    simp only [runBody]
    generalize hb : (a && (env.refs r).isSome) = b
    have hsg := sameG_noteRead s b r
    have hsc := sameC_noteRead s b r
    have hbr := bodyRel_noteRead s b r
    have h0 : Post env lt s (s.noteRead b r) := Post.of_same hm hsg hsc hbr
    obtain ⟨h1, h2⟩ := ih (env.refs r) (hnc.2 _) (hcb _) (s.noteRead b r) h0.mid (hsg.stack.trans hs)
    refine ⟨h0.trans h1, ?_⟩
    intro v hv
    obtain ⟨tr, hrep, hpend, hnew⟩ := h2 v hv
    refine ⟨.read a r (env.refs r) tr, ⟨rfl, rfl, hrep⟩, ?_, ?_⟩
    rotate_left
    · rw [edgeTarget_congr hsg.stack hsg.idx] at hnew
      intro x t hT he
      rcases hnew x t hT he with h | h
      · exact Or.inl (hsc.ge ▸ h)
      · exact Or.inr (JustE.mono (fun ev hm => by simp [flat, hm]) h)
    intro ev hm'
    simp only [flat, List.mem_cons] at hm'
    rcases hm' with rfl | hm'
    · refine ⟨rfl, ?_⟩
      intro ha hx l hl
      cases hl
      -- the read was pushed on the reference stack at the level of this frame
      have hbt : b = true := by rw [← hb, ha, hx]; rfl
      have : (base.length, r) ∈ (s.noteRead b r).refstack := by
        unfold St.noteRead
        rw [hbt, hs]
        simp
      exact h1.presP.refstack _ this
    · have := hpend ev hm'
      rwa [edgeTarget_congr hsg.stack hsg.idx] at this
  | call m k ih =>
    intro hnc hcb s hm hs
    simp only [NoCatch] at hnc
    simp only [CallsBelow] at hcb
    simp only [runBody]
    have hb : ∀ a ∈ s.stack, lt m a := by
      intro a ha
      rw [hs] at ha
      simp only [List.mem_append, List.mem_singleton] at ha
      rcases ha with ha | rfl
      · exact ho.trans _ _ _ hcb.1 (hbelow a ha)
      · exact hcb.1
    obtain ⟨h0, hret⟩ := hfC m s hm hb
    have hst0 : (f m s).2.stack = s.stack := h0.presP.stack
    obtain ⟨h1, h2⟩ := ih (f m s).1 (hnc.2 _) (hcb.2 _) (f m s).2 h0.mid (hst0.trans hs)
    refine ⟨h0.trans h1, ?_⟩
    intro v hv
    cases hres : (f m s).1 with
    | err e =>
      rw [hres] at hv
      exact absurd hv (fails_not_ok env f _ (hnc.1 e) _ v)
    | ok w =>
      rw [hres] at hv h2 h1
      obtain ⟨tr, hrep, hpend, hnew⟩ := h2 v hv
      rw [edgeTarget_congr hst0 h0.idx] at hnew
      have hT : ∀ t, s.edgeTarget = some t → t ∈ (f m s).2.stack := by
        intro t ht; rw [hst0]; exact edgeTarget_mem s t ht
      have hpend' : ∀ ev ∈ flat n.1 tr,
          PendEv env (runBody env f (k (.ok w)) (f m s).2).2 s.edgeTarget (some base.length) ev := by
        intro ev hm'
        have := hpend ev hm'
        rwa [edgeTarget_congr hst0 h0.idx] at this
      have hlvl : retLvl s = some base.length := retLvl_of_stack hs
      rcases hret w hres with ⟨hc, hp, hn0⟩ | ⟨hc, sub, hsub, hpsub, hpu, hn0⟩
      · refine ⟨.call m w tr, ⟨rfl, hc, hrep⟩, ?_, ?_⟩
        rotate_left
        · exact (hn0.trans hnew).mono (fun ev hm => by simpa [flat] using hm)
        intro ev hm'
        simp only [flat, List.mem_cons] at hm'
        rcases hm' with rfl | hm'
        · rw [hlvl] at hp; exact hp.pres h1.presP hT
        · exact hpend' ev hm'
      · refine ⟨.ucall m w sub tr, ⟨rfl, hc, hsub, hrep⟩, ?_, ?_⟩
        rotate_left
        · exact (hn0.trans hnew).mono (fun ev hm => by simpa [flat, List.append_assoc] using hm)
        intro ev hm'
        simp only [flat, List.mem_cons, List.mem_append] at hm'
        rcases hm' with rfl | hm' | hm'
        · rw [hlvl] at hpu; exact hpu.pres h1.presP hT
        · have := hpsub ev hm'; rw [hlvl] at this; exact this.pres h1.presP hT
        · exact hpend' ev hm'

end MxModel.Exec
