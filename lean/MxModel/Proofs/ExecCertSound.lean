import MxModel.Proofs.ExecCert
import MxModel.Proofs.ExecSound
/-!
# Certificates imply soundness (T2)

`cinv_good`: in a state whose held computed elements all have certificates, every held value
is the uncached denotation under the current definitions and the current inputs – by strong
induction on the age (`rank`) of the entry; uncached callees are discharged by their recorded
sub-traces.
-/
namespace MxModel.Exec

variable (env : Env) (inp : Node → Option Val)

/-- what the soundness argument needs of an event: reads are current, cached callees have the
recorded value as their denotation within depth `D` -/
def EvDen (D : Nat) : FEv → Prop
  | .read _ _ r x => env.refs r = x
  | .call m w => env.alive m.1 = true ∧ denoteN env inp D m = (.ok w, false)
  | .ucall m => env.alive m.1 = true

theorem replay_den (D : Nat) : ∀ (tr : Tr) (c : CellId) (p : Prog) (v : Val), Replay env tr p v →
    (∀ ev ∈ flat c tr, EvDen env inp D ev) →
    ∀ d, D + nest tr ≤ d → denoteBody env (denoteN env inp d) p = (.ok v, false) := by
  intro tr
  induction tr with
  | nil =>
    intro c p v hr _ d _
    simp only [Replay] at hr
    subst hr; rfl
  | read a r x t ih =>
    intro c p v hr hev d hd
    cases p with
    | read a' r' k =>
      simp only [Replay] at hr
      obtain ⟨rfl, rfl, hr⟩ := hr
      have hx : env.refs r' = x := hev (.read c a' r' x) (by simp [flat])
      simp only [denoteBody, hx]
      exact ih c _ v hr (fun ev h => hev ev (by simp [flat, h])) d (by simpa [nest] using hd)
    | ret _ => simp [Replay] at hr
    | raise _ => simp [Replay] at hr
    | reraise _ => simp [Replay] at hr
    | call _ _ => simp [Replay] at hr
  | call m w t ih =>
    intro c p v hr hev d hd
    cases p with
    | call m' k =>
      simp only [Replay] at hr
      obtain ⟨rfl, _, hr⟩ := hr
      obtain ⟨hal, hm⟩ : env.alive m'.1 = true ∧ denoteN env inp D m' = (.ok w, false) :=
        hev (.call m' w) (by simp [flat])
      have hm' := denoteN_mono_le env inp (show D ≤ d by simp only [nest] at hd; omega) m' _ hm
      have := ih c _ v hr (fun ev h => hev ev (by simp [flat, h])) d (by simpa [nest] using hd)
      simp only [denoteBody, calleeAt_alive _ hal, hm', this, Bool.or_false]
    | ret _ => simp [Replay] at hr
    | raise _ => simp [Replay] at hr
    | reraise _ => simp [Replay] at hr
    | read _ _ _ => simp [Replay] at hr
  | ucall m w sub t ihs iht =>
    intro c p v hr hev d hd
    cases p with
    | call m' k =>
      simp only [Replay] at hr
      obtain ⟨rfl, hunc, hrs, hrt⟩ := hr
      simp only [nest] at hd
      obtain ⟨d', rfl⟩ : ∃ d', d = d' + 1 := ⟨d - 1, by omega⟩
      have hsub := ihs m'.1 _ w hrs (fun ev h => hev ev (by simp [flat, h])) d' (by omega)
      have hm' : denoteN env inp (d' + 1) m' = (.ok w, false) := by
        rw [denoteN]
        simp only [hunc, Bool.false_eq_true, if_false, hsub]
        cases w <;> simp [checkNone, hunc]
      have hal : env.alive m'.1 = true := hev (.ucall m') (by simp [flat])
      have := iht c _ v hrt (fun ev h => hev ev (by simp [flat, h])) (d' + 1) (by omega)
      simp only [denoteBody, calleeAt_alive _ hal, hm', this, Bool.or_false]
    | ret _ => simp [Replay] at hr
    | raise _ => simp [Replay] at hr
    | reraise _ => simp [Replay] at hr
    | read _ _ _ => simp [Replay] at hr

/-- one depth serves all cached callees of a trace -/
theorem common_depth (L : List FEv)
    (h : ∀ ev ∈ L, match ev with
      | .read _ _ r x => env.refs r = x
      | .call m w => env.alive m.1 = true ∧ Den env inp m (.ok w)
      | .ucall m => env.alive m.1 = true) :
    ∃ D, ∀ ev ∈ L, EvDen env inp D ev := by
  induction L with
  | nil => exact ⟨0, by simp⟩
  | cons ev L ih =>
    obtain ⟨D, hD⟩ := ih (fun ev h' => h ev (by simp [h']))
    have hev := h ev (by simp)
    have lift : ∀ D', D ≤ D' → ∀ ev ∈ L, EvDen env inp D' ev := by
      intro D' hle ev hm
      have := hD ev hm
      cases ev with
      | read c a r x => exact this
      | call m w => exact ⟨this.1, denoteN_mono_le env inp hle m _ this.2⟩
      | ucall m => exact this
    cases ev with
    | read c a r x =>
      refine ⟨D, ?_⟩
      intro ev hm
      simp only [List.mem_cons] at hm
      rcases hm with rfl | hm
      · exact hev
      · exact hD ev hm
    | call m w =>
      obtain ⟨hal, D1, hD1⟩ := hev
      refine ⟨max D D1, ?_⟩
      intro ev hm
      simp only [List.mem_cons] at hm
      rcases hm with rfl | hm
      · exact ⟨hal, denoteN_mono_le env inp (Nat.le_max_right D D1) m _ hD1⟩
      · exact lift _ (Nat.le_max_left D D1) ev hm
    | ucall m =>
      refine ⟨D, ?_⟩
      intro ev hm
      simp only [List.mem_cons] at hm
      rcases hm with rfl | hm
      · exact hev
      · exact hD ev hm

theorem den_of_input (s : St) (n : Node) (v : Val) (hc : env.cached n.1 = true)
    (hin : n ∈ s.inputs) (hl : lookup s.data n = some v) : Den env (inpOf s) n (.ok v) := by
  refine ⟨1, ?_⟩
  rw [denoteN]
  simp [hc, inpOf, hin, hl]

/-- **T2**: certificates imply that every held value is the denotation -/
theorem cinv_sound (s : St) (hcached : ∀ m, (lookup s.data m).isSome → env.cached m.1 = true)
    (halive : ∀ a b, (a, b) ∈ s.ge → env.alive a.cell = true)
    (hinv : CInv env s) :
    ∀ (h : Nat) (n : Node) (v : Val), rank s.data n = h → lookup s.data n = some v →
      Den env (inpOf s) n (.ok v) := by
  intro h
  induction h using Nat.strongRecOn with
  | _ h ih =>
    intro n v hh hl
    have hc : env.cached n.1 = true := hcached n (by rw [hl]; rfl)
    by_cases hin : n ∈ s.inputs
    · exact den_of_input env s n v hc hin hl
    · obtain ⟨tr, hcert⟩ := hinv n v hl hin
      have hall : ∀ ev ∈ flat n.1 tr, match ev with
          | .read _ _ r x => env.refs r = x
          | .call m w => env.alive m.1 = true ∧ Den env (inpOf s) m (.ok w)
          | .ucall m => env.alive m.1 = true := by
        intro ev hm
        have hok := hcert.events ev hm
        cases ev with
        | read c a r x => exact hok.1
        | call m w =>
          obtain ⟨hlm, hrk, hedge⟩ := hok
          exact ⟨halive _ _ hedge, ih (rank s.data m) (by omega) m w rfl hlm⟩
        | ucall m => exact halive _ _ hok
      obtain ⟨D, hD⟩ := common_depth env (inpOf s) _ hall
      have hb := replay_den env (inpOf s) D tr n.1 _ v hcert.replay hD (D + nest tr) (Nat.le_refl _)
      refine ⟨D + nest tr + 1, ?_⟩
      rw [denoteN]
      have : (if env.cached n.1 = true then inpOf s n else none) = none := by
        simp [hc, inpOf, hin]
      rw [this]
      simp only [hb]
      cases v with
      | int i => simp [checkNone]
      | none => simp [checkNone, hc, hcert.noneOK rfl]

theorem cinv_good (s : St) (hcached : ∀ m, (lookup s.data m).isSome → env.cached m.1 = true)
    (halive : ∀ a b, (a, b) ∈ s.ge → env.alive a.cell = true)
    (hinv : CInv env s) : Good env (inpOf s) s := by
  constructor
  · intro n v _ hl; exact cinv_sound env s hcached halive hinv _ n v rfl hl
  · intro n v _ hi
    simp only [inpOf] at hi
    split at hi
    · exact hi
    · cases hi

end MxModel.Exec
