import MxModel.Proofs.ExecInputsRun
/-!
# Two runs of one history that differ in the initial flag assignment

The definitions the two runs reach differ at most in the flags (`envStep_flags`); the regime `WF`
does not mention the flags, so admissibility carries over; and a history without assignments leaves
no inputs in either run.
-/
namespace MxModel.C02
open MxModel.Exec

def _root_.MxModel.Exec.Env.setFlags (env : Env) (c : CellId → Bool) : Env := { env with cached := c }

theorem envStep_flags (e1 : Env) (c2 : CellId → Bool) (op : Op) :
    (envStep e1 op).setFlags (envStep (e1.setFlags c2) op).cached = envStep (e1.setFlags c2) op := by
  cases op with
  | setRef r v => rfl
  | delRef r =>
    simp only [envStep]
    show (if (e1.refs r).isSome then _ else _ : Env).setFlags
      (if (e1.refs r).isSome then _ else _ : Env).cached = (if (e1.refs r).isSome then _ else _)
    split <;> rfl
  | setFormula c f =>
    simp only [envStep]
    show (if e1.alive c then _ else _ : Env).setFlags
      (if e1.alive c then _ else _ : Env).cached = (if e1.alive c then _ else _)
    split <;> rfl
  | setCached c b =>
    simp only [envStep]
    show (if (e1.cached c = b || !e1.alive c) = true then _ else _ : Env).setFlags
      (if (c2 c = b || !e1.alive c) = true then _ else _ : Env).cached =
      (if (c2 c = b || !e1.alive c) = true then _ else _)
    split <;> split <;> rfl
  | delCell c =>
    simp only [envStep]
    show (if e1.alive c then _ else _ : Env).setFlags
      (if e1.alive c then _ else _ : Env).cached = (if e1.alive c then _ else _)
    split <;> rfl
  | newCell c f b an =>
    simp only [envStep]
    show (if e1.alive c then _ else _ : Env).setFlags
      (if e1.alive c then _ else _ : Env).cached = (if e1.alive c then _ else _)
    split <;> rfl
  | maxdepth k => rfl
  | eval _ => rfl
  | setValue _ _ => rfl
  | clearAt _ => rfl
  | clear _ => rfl
  | clearAll _ => rfl
  | admin _ => rfl

/-- the definitions reached from another flag assignment are those reached from `env`, with flags -/
theorem foldl_envStep_flags (ops : List Op) : ∀ (e1 : Env) (c2 : CellId → Bool),
    (ops.foldl envStep e1).setFlags (ops.foldl envStep (e1.setFlags c2)).cached =
      ops.foldl envStep (e1.setFlags c2) := by
  induction ops with
  | nil => intro e1 c2; rfl
  | cons op rest ih =>
    intro e1 c2
    simp only [List.foldl]
    rw [← envStep_flags e1 c2 op]
    exact ih _ _

theorem wf_setFlags {env : Env} {lt : Node → Node → Prop} (h : WF env lt) (c : CellId → Bool) :
    WF (env.setFlags c) lt := ⟨h.ranked, h.noCatch, h.scoping⟩

theorem admissible_flags (lt : Node → Node → Prop) (ops : List Op) : ∀ (e1 : Env) (c2 : CellId → Bool) (s s' : St),
    Admissible lt (e1, s) ops → Admissible lt (e1.setFlags c2, s') ops := by
  induction ops with
  | nil => intro _ _ _ _ _; trivial
  | cons op rest ih =>
    intro e1 c2 s s' h
    have a1 : step (e1, s) op = (envStep e1 op, (step (e1, s) op).2) := by rw [← step_env]
    have a2 : step (e1.setFlags c2, s') op = (envStep (e1.setFlags c2) op, (step (e1.setFlags c2, s') op).2) := by
      rw [← step_env]
    simp only [Admissible] at h ⊢
    rw [a1] at h; rw [a2, ← envStep_flags e1 c2 op]
    exact ⟨wf_setFlags h.1 _, ih _ _ _ _ h.2⟩

def isAssign : Op → Bool
  | .setValue _ _ => true
  | _ => false

theorem inpRun_none (ops : List Op) (hna : ∀ op ∈ ops, isAssign op = false) : ∀ env : Env,
    inpRun env (fun _ => none) ops = fun _ => none := by
  induction ops with
  | nil => intro _; rfl
  | cons op rest ih =>
    intro env
    simp only [inpRun]
    have h1 : inpStep env (fun _ => none) op = fun _ => none := by
      have := hna op (by simp)
      cases op <;> simp_all [isAssign, inpStep] <;> (try split) <;> (try rfl) <;> (funext m; split <;> rfl)
    rw [h1]
    exact ih (fun op' h' => hna op' (by simp [h'])) _

end MxModel.C02
