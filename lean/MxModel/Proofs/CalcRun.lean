import MxModel.Proofs.CalcExec
/-!
# Whole runs on the abstract cache

* `run_from`: executing a plan from ANY cache that holds user inputs only (none of them planned),
  for programs whose calls go to planned elements or to those inputs;
* what tracing records (`trace_edges`, `target_traced`);
* `generate_then_execute`: `generate_actions` (trace, plan over ANY topological order of the traced
  elements with the recorded edges as successors, clear) followed by `execute_actions`.
-/
namespace MxModel.CalcSteps

/-- a cache that holds user inputs only has no trace edge -/
theorem edges_nil_of_inputs_only {c : Cache} (h : c.WF) (hi : ∀ x ∈ c.held, x ∈ c.inputs) :
    c.edges = [] := by
  rw [List.eq_nil_iff_forall_not_mem]
  intro e he
  have := h.edgeHead e he
  exact this.2 (hi _ this.1)

theorem run_from (ordered : List Node) (succs preds : Node → List Node) (targets : List Node)
    (size fuel : Nat) (c0 : Cache) (hz : 1 ≤ size) (ht : isTopo succs ordered = true) (hd : ordered.Nodup)
    (h0 : c0.WF) (h0i : ∀ x ∈ c0.held, x ∈ c0.inputs) (h0d : ∀ x ∈ c0.held, x ∉ ordered)
    (hp : ∀ n ∈ ordered, ∀ p ∈ preds n, (p ∈ ordered ∧ n ∈ succs p) ∨ p ∈ c0.held) :
    (∀ x, x ∈ (execute preds (fuel + 1) (calcSteps ordered succs targets size) c0).held ↔
        (x ∈ targets ∧ x ∈ ordered) ∨ x ∈ c0.held) ∧
    (∀ x, x ∈ (execute preds (fuel + 1) (calcSteps ordered succs targets size) c0).inputs ↔
        x ∈ (execute preds (fuel + 1) (calcSteps ordered succs targets size) c0).held) ∧
    (execute preds (fuel + 1) (calcSteps ordered succs targets size) c0).edges = [] ∧
    (execute preds (fuel + 1) (calcSteps ordered succs targets size) c0).log = c0.log ++ ordered := by
  have key : ∀ m, SInv ordered succs targets size c0 m
      ((List.range m).foldl
        (fun c k => execStep preds (fuel + 1) (stepAt ordered succs targets size k) c) c0) := by
    intro m
    induction m with
    | zero =>
      refine ⟨?_, ?_, edges_nil_of_inputs_only h0 h0i, by simp⟩
      · intro x; simp [heldAt, pastedAt]
      · intro x; exact ⟨h0.inputsHeld x, h0i x⟩
    | succ m ih =>
      rw [List.range_succ, List.foldl_append]
      exact step_inv ordered succs targets size preds c0 ht hd h0d hp fuel m _ ih
  have hrun : execute preds (fuel + 1) (calcSteps ordered succs targets size) c0 =
      (List.range (nSteps ordered succs targets size)).foldl
        (fun c k => execStep preds (fuel + 1) (stepAt ordered succs targets size k) c) c0 := by
    unfold calcSteps
    rw [execute_flatMap, planSteps_eq_map ordered succs targets size hz, List.foldl_map]
  rw [hrun]
  have inv := key (nSteps ordered succs targets size)
  have hfull := List.take_of_length_le (nSteps_covers ordered succs targets size hz)
  have hnil := finalPasted_nil ordered succs targets size hz ht
  rw [finalPasted_eq] at hnil
  refine ⟨?_, inv.inputs, inv.edges, by rw [inv.log, hfull]⟩
  intro x
  rw [inv.held]
  simp [heldAt, hnil, hfull]

/-! ## what tracing records -/

/-- evaluation only adds edges, and every element whose formula ran has the edge from each of its
callees (whatever the call-depth bound did to the callee) -/
structure Records (preds : Node → List Node) (c c' : Cache) : Prop where
  keeps : ∀ e ∈ c.edges, e ∈ c'.edges
  calls : ∀ n ∈ c'.log.drop c.log.length, ∀ p ∈ preds n, (p, n) ∈ c'.edges
  logPrefix : ∃ new, c'.log = c.log ++ new

theorem Records.refl (preds : Node → List Node) (c : Cache) : Records preds c c :=
  ⟨fun _ h => h, by simp, ⟨[], by simp⟩⟩

theorem Records.trans {preds : Node → List Node} {a b c : Cache} (h1 : Records preds a b)
    (h2 : Records preds b c) : Records preds a c := by
  obtain ⟨n1, l1⟩ := h1.logPrefix
  obtain ⟨n2, l2⟩ := h2.logPrefix
  refine ⟨fun e he => h2.keeps e (h1.keeps e he), ?_, ⟨n1 ++ n2, by rw [l2, l1, List.append_assoc]⟩⟩
  intro n hn p hp
  rw [l2, l1, List.append_assoc, List.drop_left] at hn
  rcases List.mem_append.mp hn with hn | hn
  · apply h2.keeps
    apply h1.calls n ?_ p hp
    rw [l1, List.drop_left]; exact hn
  · apply h2.calls n ?_ p hp
    rw [l2, List.drop_left]; exact hn

theorem evalNode_records (preds : Node → List Node) (fuel : Nat) :
    ∀ (n : Node) (c : Cache), Records preds c (evalNode preds fuel n c) := by
  induction fuel with
  | zero => intro n c; exact Records.refl preds c
  | succ fuel ih =>
    intro n c
    unfold evalNode
    by_cases hn : n ∈ c.held
    · rw [if_pos hn]; exact Records.refl preds c
    · rw [if_neg hn]
      -- the fold over the calls: records everything from `c0` on, and the edges of the calls done
      have fold : ∀ (ps : List Node) (c0 : Cache),
          Records preds c0 (ps.foldl (fun c p => (evalNode preds fuel p c).addEdge p n) c0) ∧
          ∀ p ∈ ps, (p, n) ∈ (ps.foldl (fun c p => (evalNode preds fuel p c).addEdge p n) c0).edges := by
        intro ps
        induction ps with
        | nil => intro c0; exact ⟨Records.refl preds c0, by simp⟩
        | cons p ps ihp =>
          intro c0
          simp only [List.foldl_cons]
          have r1 := ih p c0
          have r2 : Records preds c0 ((evalNode preds fuel p c0).addEdge p n) :=
            ⟨fun e he => by simp only [Cache.addEdge, List.mem_append]; exact Or.inl (r1.keeps e he),
             fun m hm q hq => by
               simp only [Cache.addEdge, List.mem_append]; exact Or.inl (r1.calls m hm q hq),
             r1.logPrefix⟩
          obtain ⟨r3, e3⟩ := ihp ((evalNode preds fuel p c0).addEdge p n)
          refine ⟨r2.trans r3, ?_⟩
          intro q hq
          rcases List.mem_cons.mp hq with rfl | hq
          · exact r3.keeps _ (by simp [Cache.addEdge])
          · exact e3 q hq
      obtain ⟨rf, ef⟩ := fold (preds n) (c.enter n)
      generalize (preds n).foldl (fun c p => (evalNode preds fuel p c).addEdge p n) (c.enter n) = cf
        at rf ef
      obtain ⟨new, hl⟩ := rf.logPrefix
      have hl' : cf.log = c.log ++ (n :: new) := by
        rw [hl]; simp [Cache.enter]
      refine ⟨?_, ?_, ⟨n :: new, by simpa [Cache.store] using hl'⟩⟩
      · intro e he
        exact rf.keeps e (by simpa [Cache.enter] using he)
      · intro m hm p hp
        have : (cf.store n).log = c.log ++ (n :: new) := by simpa [Cache.store] using hl'
        rw [this, List.drop_left] at hm
        show (p, m) ∈ cf.edges
        rcases List.mem_cons.mp hm with rfl | hm
        · exact ef p hp
        · apply rf.calls m ?_ p hp
          rw [hl, List.drop_left]; exact hm

theorem traceTargets_records (preds : Node → List Node) (fuel : Nat) (targets : List Node) (c : Cache) :
    Records preds c (traceTargets preds fuel targets c) := by
  unfold traceTargets
  induction targets generalizing c with
  | nil => exact Records.refl preds c
  | cons t ts ih =>
    simp only [List.foldl_cons]
    by_cases ht : t ∈ c.inputs
    · rw [if_pos ht]; exact ih c
    · rw [if_neg ht]
      exact (evalNode_records preds fuel t c).trans (ih _)

/-- every element whose formula ran while tracing has the edge from each element it calls -/
theorem trace_edges (preds : Node → List Node) (fuel : Nat) (targets : List Node) (c : Cache) :
    ∀ n ∈ calculated preds fuel targets c, ∀ p ∈ preds n,
      (p, n) ∈ (traceTargets preds fuel targets c).edges :=
  (traceTargets_records preds fuel targets c).calls

/-- after `evalNode` with a positive call-depth bound the element is held -/
theorem evalNode_holds (preds : Node → List Node) (fuel : Nat) (n : Node) (c : Cache) :
    n ∈ (evalNode preds (fuel + 1) n c).held := by
  unfold evalNode
  by_cases hn : n ∈ c.held
  · rw [if_pos hn]; exact hn
  · rw [if_neg hn]; simp [Cache.store]

/-- every target that is not a user input is held after tracing (call-depth bound ≥ 1) -/
theorem target_traced (preds : Node → List Node) (fuel : Nat) (targets : List Node) (c : Cache)
    (h : c.WF) : ∀ t ∈ targets, t ∉ c.inputs → t ∈ (traceTargets preds (fuel + 1) targets c).held := by
  unfold traceTargets
  induction targets generalizing c with
  | nil => intro t ht; cases ht
  | cons u us ih =>
    intro t ht hti
    simp only [List.foldl_cons]
    have step : ∀ c', c'.WF → c'.inputs = c.inputs → (t ∈ c'.held ∨ t ∈ us) →
        t ∈ (us.foldl (fun c t => if t ∈ c.inputs then c else evalNode preds (fuel + 1) t c) c').held := by
      intro c' w hi hor
      rcases hor with hh | hu
      · have g := (traceTargets_spec preds (fuel + 1) us c' w).2
        obtain ⟨_, _, _, gs, _, _⟩ := g
        exact gs t hh
      · exact ih c' w t hu (by rw [hi]; exact hti)
    by_cases hu : u ∈ c.inputs
    · rw [if_pos hu]
      rcases List.mem_cons.mp ht with rfl | ht
      · exact (hti hu).elim
      · exact step c h rfl (Or.inr ht)
    · rw [if_neg hu]
      obtain ⟨w, g⟩ := evalNode_spec preds (fuel + 1) u c [] h.toWFp
      rcases List.mem_cons.mp ht with rfl | ht
      · exact step _ w.toWF g.inputs (Or.inl (evalNode_holds preds fuel t c))
      · exact step _ w.toWF g.inputs (Or.inr ht)

/-- the successors of a node in a graph given by its edge list (`subgraph.successors`) -/
def succsOf (edges : List (Node × Node)) (p : Node) : List Node :=
  (edges.filter (fun e => e.1 = p)).map (·.2)

theorem mem_succsOf {edges : List (Node × Node)} {p n : Node} : n ∈ succsOf edges p ↔ (p, n) ∈ edges := by
  unfold succsOf
  simp only [List.mem_map, List.mem_filter, decide_eq_true_eq]
  constructor
  · rintro ⟨e, ⟨he, h1⟩, h2⟩
    have : e = (p, n) := by cases e; simp_all
    rw [← this]; exact he
  · intro h; exact ⟨(p, n), ⟨h, rfl⟩, rfl⟩

/-- **generate, plan, execute.**  From a cache that holds user inputs only: trace the targets
(`generate_actions`), take ANY duplicate-free list of exactly the traced elements that is a
topological order of the recorded trace edges (`nx.topological_sort` of the sub graph), plan it for
the targets that are not user inputs, clear what was traced, execute the plan.  Provided tracing
ran to completion (everything a traced element calls has a value when tracing ends - the depth
bound was not hit): exactly the user inputs and the targets are held at the end, the targets
value-pasted, no trace edge is left, and the formulas that ran during the execution are exactly
the traced elements, each once, in the planned order. -/
theorem generate_then_execute (preds : Node → List Node) (fuel fuel' : Nat) (targets ordered : List Node)
    (size : Nat) (c : Cache) (hz : 1 ≤ size) (h : c.WF) (hc : ∀ x ∈ c.held, x ∈ c.inputs)
    (hdone : ∀ n ∈ calculated preds (fuel + 1) targets c, ∀ p ∈ preds n,
      p ∈ (traceTargets preds (fuel + 1) targets c).held)
    (hset : ∀ x, x ∈ ordered ↔ x ∈ calculated preds (fuel + 1) targets c) (hd : ordered.Nodup)
    (ht : isTopo (succsOf (traceTargets preds (fuel + 1) targets c).edges) ordered = true) :
    let plan := calcSteps ordered (succsOf (traceTargets preds (fuel + 1) targets c).edges)
      (targets.filter (fun t => !decide (t ∈ c.inputs))) size
    let r := execute preds (fuel' + 1) plan (generateLeaves preds (fuel + 1) targets c)
    (∀ x, x ∈ r.held ↔ x ∈ targets ∨ x ∈ c.held) ∧ (∀ x, x ∈ r.inputs ↔ x ∈ r.held) ∧
    r.edges = [] ∧ r.log = (generateLeaves preds (fuel + 1) targets c).log ++ ordered := by
  intro plan r
  obtain ⟨g1, g2, g3⟩ := generateLeaves_spec preds (fuel + 1) targets c h hc
  obtain ⟨w1, gi, new, gl, gs, gg, gd⟩ := traceTargets_spec preds (fuel + 1) targets c h
  have hcalc : calculated preds (fuel + 1) targets c = new := by
    unfold calculated; rw [gl]; simp
  have wL : (generateLeaves preds (fuel + 1) targets c).WF :=
    ⟨fun x hx => (g1 x).mpr (h.inputsHeld x ((g2 x).mp hx)), fun e he => by rw [g3] at he; cases he⟩
  have hLi : ∀ x ∈ (generateLeaves preds (fuel + 1) targets c).held,
      x ∈ (generateLeaves preds (fuel + 1) targets c).inputs :=
    fun x hx => (g2 x).mpr (hc x ((g1 x).mp hx))
  have hLd : ∀ x ∈ (generateLeaves preds (fuel + 1) targets c).held, x ∉ ordered := by
    intro x hx ho
    have := (hset x).mp ho
    rw [hcalc] at this
    exact gd x this ((g1 x).mp hx)
  have hp : ∀ n ∈ ordered, ∀ p ∈ preds n,
      (p ∈ ordered ∧ n ∈ succsOf (traceTargets preds (fuel + 1) targets c).edges p) ∨
      p ∈ (generateLeaves preds (fuel + 1) targets c).held := by
    intro n hn p hpn
    have hn' := (hset n).mp hn
    have hheld := hdone n hn' p hpn
    rcases gg p hheld with hh | hh
    · exact Or.inr ((g1 p).mpr hh)
    · refine Or.inl ⟨(hset p).mpr (by rw [hcalc]; exact hh), ?_⟩
      exact mem_succsOf.mpr (trace_edges preds (fuel + 1) targets c n hn' p hpn)
  obtain ⟨r1, r2, r3, r4⟩ := run_from ordered (succsOf (traceTargets preds (fuel + 1) targets c).edges) preds
    (targets.filter (fun t => !decide (t ∈ c.inputs))) size fuel' (generateLeaves preds (fuel + 1) targets c)
    hz ht hd wL hLi hLd hp
  refine ⟨?_, r2, r3, r4⟩
  intro x
  show x ∈ r.held ↔ _
  rw [r1 x, g1 x]
  constructor
  · rintro (⟨hx, _⟩ | hx)
    · exact Or.inl (List.mem_filter.mp hx).1
    · exact Or.inr hx
  · rintro (hx | hx)
    · by_cases hxi : x ∈ c.inputs
      · exact Or.inr (h.inputsHeld x hxi)
      · left
        refine ⟨List.mem_filter.mpr ⟨hx, by simp [hxi]⟩, (hset x).mpr ?_⟩
        rw [hcalc]
        have hheld := target_traced preds fuel targets c h x hx hxi
        rcases gg x hheld with hh | hh
        · exact (hxi (hc x hh)).elim
        · exact hh
    · exact Or.inr hx

end MxModel.CalcSteps
