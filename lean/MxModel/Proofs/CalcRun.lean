import MxModel.Proofs.CalcExec
/-!
# Whole runs on the abstract cache

* `run_from`: executing a plan from ANY cache that holds user inputs only (none of them planned),
  for programs whose calls go to planned elements or to those inputs;
* what tracing records (`trace_edges`, `target_traced`);
* `generate_then_execute`: `generate_actions` (trace, plan over ANY topological order of the traced
  elements with the recorded edges as successors, clear) followed by `execute_actions`.
-/
namespace MxModel.CalcSteps

/-- a cache that holds user inputs only has no trace edge -/
theorem edges_nil_of_inputs_only {c : Cache} (h : c.WF) (hi : ∀ x ∈ c.held, x ∈ c.inputs) :
    c.edges = [] := by
  rw [List.eq_nil_iff_forall_not_mem]
  intro e he
  have := h.edgeHead e he
  exact this.2 (hi _ this.1)

/-- **the run from ANY well-formed cache** whose values are not planned and none of whose trace
edges starts at a planned element: what the cache held (user inputs AND calculated values, with
their edges) is exactly as before, the targets are added, value-pasted, and the planned elements
ran once each in the planned order -/
theorem run_from_any (ordered : List Node) (succs preds : Node → List Node) (targets : List Node)
    (size fuel : Nat) (c0 : Cache) (hz : 1 ≤ size) (ht : isTopo succs ordered = true) (hd : ordered.Nodup)
    (h0 : c0.WF) (h0d : ∀ x ∈ c0.held, x ∉ ordered) (h0e : ∀ e ∈ c0.edges, e.1 ∉ ordered)
    (hp : ∀ n ∈ ordered, ∀ p ∈ preds n, (p ∈ ordered ∧ n ∈ succs p) ∨ p ∈ c0.held) :
    (∀ x, x ∈ (execute preds (fuel + 1) (calcSteps ordered succs targets size) c0).held ↔
        (x ∈ targets ∧ x ∈ ordered) ∨ x ∈ c0.held) ∧
    (∀ x, x ∈ (execute preds (fuel + 1) (calcSteps ordered succs targets size) c0).inputs ↔
        (x ∈ targets ∧ x ∈ ordered) ∨ x ∈ c0.inputs) ∧
    (∀ e, e ∈ (execute preds (fuel + 1) (calcSteps ordered succs targets size) c0).edges ↔ e ∈ c0.edges) ∧
    (execute preds (fuel + 1) (calcSteps ordered succs targets size) c0).log = c0.log ++ ordered := by
  have key : ∀ m, SInv ordered succs targets size c0 m
      ((List.range m).foldl
        (fun c k => execStep preds (fuel + 1) (stepAt ordered succs targets size k) c) c0) := by
    intro m
    induction m with
    | zero =>
      refine ⟨?_, ?_, fun e => Iff.rfl, by simp⟩
      · intro x; simp [heldAt, pastedAt]
      · intro x; simp [heldAt, pastedAt]
    | succ m ih =>
      rw [List.range_succ, List.foldl_append]
      exact step_inv ordered succs targets size preds c0 ht hd h0 h0d h0e hp fuel m _ ih
  have hrun : execute preds (fuel + 1) (calcSteps ordered succs targets size) c0 =
      (List.range (nSteps ordered succs targets size)).foldl
        (fun c k => execStep preds (fuel + 1) (stepAt ordered succs targets size k) c) c0 := by
    unfold calcSteps
    rw [execute_flatMap, planSteps_eq_map ordered succs targets size hz, List.foldl_map]
  rw [hrun]
  have inv := key (nSteps ordered succs targets size)
  have hfull := List.take_of_length_le (nSteps_covers ordered succs targets size hz)
  have hnil := finalPasted_nil ordered succs targets size hz ht
  rw [finalPasted_eq] at hnil
  refine ⟨?_, ?_, inv.edges, by rw [inv.log, hfull]⟩
  · intro x
    rw [inv.held]
    simp [heldAt, hnil, hfull]
  · intro x
    rw [inv.inputs]
    simp [heldAt, hnil, hfull]

theorem run_from (ordered : List Node) (succs preds : Node → List Node) (targets : List Node)
    (size fuel : Nat) (c0 : Cache) (hz : 1 ≤ size) (ht : isTopo succs ordered = true) (hd : ordered.Nodup)
    (h0 : c0.WF) (h0i : ∀ x ∈ c0.held, x ∈ c0.inputs) (h0d : ∀ x ∈ c0.held, x ∉ ordered)
    (hp : ∀ n ∈ ordered, ∀ p ∈ preds n, (p ∈ ordered ∧ n ∈ succs p) ∨ p ∈ c0.held) :
    (∀ x, x ∈ (execute preds (fuel + 1) (calcSteps ordered succs targets size) c0).held ↔
        (x ∈ targets ∧ x ∈ ordered) ∨ x ∈ c0.held) ∧
    (∀ x, x ∈ (execute preds (fuel + 1) (calcSteps ordered succs targets size) c0).inputs ↔
        x ∈ (execute preds (fuel + 1) (calcSteps ordered succs targets size) c0).held) ∧
    (execute preds (fuel + 1) (calcSteps ordered succs targets size) c0).edges = [] ∧
    (execute preds (fuel + 1) (calcSteps ordered succs targets size) c0).log = c0.log ++ ordered := by
  have he0 := edges_nil_of_inputs_only h0 h0i
  obtain ⟨a, b, c, d⟩ := run_from_any ordered succs preds targets size fuel c0 hz ht hd h0 h0d
    (by rw [he0]; intro e he; cases he) hp
  refine ⟨a, ?_, ?_, d⟩
  · intro x
    rw [a x, b x]
    constructor
    · rintro (h | h)
      · exact Or.inl h
      · exact Or.inr (h0.inputsHeld x h)
    · rintro (h | h)
      · exact Or.inl h
      · exact Or.inr (h0i x h)
  · rw [List.eq_nil_iff_forall_not_mem]
    intro e he
    have := (c e).mp he
    rw [he0] at this; cases this

/-! ## what tracing records -/

/-- evaluation only adds edges, and every element whose formula ran has the edge from each of its
callees (whatever the call-depth bound did to the callee) -/
structure Records (preds : Node → List Node) (c c' : Cache) : Prop where
  keeps : ∀ e ∈ c.edges, e ∈ c'.edges
  calls : ∀ n ∈ c'.log.drop c.log.length, ∀ p ∈ preds n, (p, n) ∈ c'.edges
  logPrefix : ∃ new, c'.log = c.log ++ new

theorem Records.refl (preds : Node → List Node) (c : Cache) : Records preds c c :=
  ⟨fun _ h => h, by simp, ⟨[], by simp⟩⟩

theorem Records.trans {preds : Node → List Node} {a b c : Cache} (h1 : Records preds a b)
    (h2 : Records preds b c) : Records preds a c := by
  obtain ⟨n1, l1⟩ := h1.logPrefix
  obtain ⟨n2, l2⟩ := h2.logPrefix
  refine ⟨fun e he => h2.keeps e (h1.keeps e he), ?_, ⟨n1 ++ n2, by rw [l2, l1, List.append_assoc]⟩⟩
  intro n hn p hp
  rw [l2, l1, List.append_assoc, List.drop_left] at hn
  rcases List.mem_append.mp hn with hn | hn
  · apply h2.keeps
    apply h1.calls n ?_ p hp
    rw [l1, List.drop_left]; exact hn
  · apply h2.calls n ?_ p hp
    rw [l2, List.drop_left]; exact hn

theorem evalNode_records (preds : Node → List Node) (fuel : Nat) :
    ∀ (n : Node) (c : Cache), Records preds c (evalNode preds fuel n c) := by
  induction fuel with
  | zero => intro n c; exact Records.refl preds c
  | succ fuel ih =>
    intro n c
    unfold evalNode
    by_cases hn : n ∈ c.held
    · rw [if_pos hn]; exact Records.refl preds c
    · rw [if_neg hn]
      -- the fold over the calls: records everything from `c0` on, and the edges of the calls done
      have fold : ∀ (ps : List Node) (c0 : Cache),
          Records preds c0 (ps.foldl (fun c p => (evalNode preds fuel p c).addEdge p n) c0) ∧
          ∀ p ∈ ps, (p, n) ∈ (ps.foldl (fun c p => (evalNode preds fuel p c).addEdge p n) c0).edges := by
        intro ps
        induction ps with
        | nil => intro c0; exact ⟨Records.refl preds c0, by simp⟩
        | cons p ps ihp =>
          intro c0
          simp only [List.foldl_cons]
          have r1 := ih p c0
          have r2 : Records preds c0 ((evalNode preds fuel p c0).addEdge p n) :=
            ⟨fun e he => by simp only [Cache.addEdge, List.mem_append]; exact Or.inl (r1.keeps e he),
             fun m hm q hq => by
               simp only [Cache.addEdge, List.mem_append]; exact Or.inl (r1.calls m hm q hq),
             r1.logPrefix⟩
          obtain ⟨r3, e3⟩ := ihp ((evalNode preds fuel p c0).addEdge p n)
          refine ⟨r2.trans r3, ?_⟩
          intro q hq
          rcases List.mem_cons.mp hq with rfl | hq
          · exact r3.keeps _ (by simp [Cache.addEdge])
          · exact e3 q hq
      obtain ⟨rf, ef⟩ := fold (preds n) (c.enter n)
      generalize (preds n).foldl (fun c p => (evalNode preds fuel p c).addEdge p n) (c.enter n) = cf
        at rf ef
      obtain ⟨new, hl⟩ := rf.logPrefix
      have hl' : cf.log = c.log ++ (n :: new) := by
        rw [hl]; simp [Cache.enter]
      refine ⟨?_, ?_, ⟨n :: new, by simpa [Cache.store] using hl'⟩⟩
      · intro e he
        exact rf.keeps e (by simpa [Cache.enter] using he)
      · intro m hm p hp
        have : (cf.store n).log = c.log ++ (n :: new) := by simpa [Cache.store] using hl'
        rw [this, List.drop_left] at hm
        show (p, m) ∈ cf.edges
        rcases List.mem_cons.mp hm with rfl | hm
        · exact ef p hp
        · apply rf.calls m ?_ p hp
          rw [hl, List.drop_left]; exact hm

theorem traceTargets_records (preds : Node → List Node) (fuel : Nat) (targets : List Node) (c : Cache) :
    Records preds c (traceTargets preds fuel targets c) := by
  unfold traceTargets
  induction targets generalizing c with
  | nil => exact Records.refl preds c
  | cons t ts ih =>
    simp only [List.foldl_cons]
    by_cases ht : t ∈ c.inputs
    · rw [if_pos ht]; exact ih c
    · rw [if_neg ht]
      exact (evalNode_records preds fuel t c).trans (ih _)

/-- evaluation keeps what was held, holds at its end every element whose formula ran, and adds no
edge but those of the calls made by such elements -/
structure Stores (preds : Node → List Node) (c c' : Cache) : Prop where
  mono : ∀ x ∈ c.held, x ∈ c'.held
  stored : ∀ n ∈ c'.log.drop c.log.length, n ∈ c'.held
  only : ∀ e ∈ c'.edges, e ∈ c.edges ∨ (e.2 ∈ c'.log.drop c.log.length ∧ e.1 ∈ preds e.2)
  logPrefix : ∃ new, c'.log = c.log ++ new

theorem Stores.refl (preds : Node → List Node) (c : Cache) : Stores preds c c :=
  ⟨fun _ h => h, by simp, fun _ h => Or.inl h, ⟨[], by simp⟩⟩

theorem Stores.trans {preds : Node → List Node} {a b c : Cache} (h1 : Stores preds a b)
    (h2 : Stores preds b c) : Stores preds a c := by
  obtain ⟨n1, l1⟩ := h1.logPrefix
  obtain ⟨n2, l2⟩ := h2.logPrefix
  have e1 : b.log.drop a.log.length = n1 := by rw [l1, List.drop_left]
  have e2 : c.log.drop b.log.length = n2 := by rw [l2, List.drop_left]
  have e3 : c.log.drop a.log.length = n1 ++ n2 := by rw [l2, l1, List.append_assoc, List.drop_left]
  refine ⟨fun x hx => h2.mono x (h1.mono x hx), ?_, ?_, ⟨n1 ++ n2, by rw [l2, l1, List.append_assoc]⟩⟩
  · intro n hn
    rw [e3] at hn
    rcases List.mem_append.mp hn with hn | hn
    · exact h2.mono n (h1.stored n (by rw [e1]; exact hn))
    · exact h2.stored n (by rw [e2]; exact hn)
  · intro e he
    rw [e3]
    rcases h2.only e he with h | ⟨h, hp⟩
    · rcases h1.only e h with h | ⟨h, hp⟩
      · exact Or.inl h
      · rw [e1] at h; exact Or.inr ⟨List.mem_append_left _ h, hp⟩
    · rw [e2] at h; exact Or.inr ⟨List.mem_append_right _ h, hp⟩

theorem evalNode_stores (preds : Node → List Node) (fuel : Nat) :
    ∀ (n : Node) (c : Cache), Stores preds c (evalNode preds fuel n c) := by
  induction fuel with
  | zero => intro n c; exact Stores.refl preds c
  | succ fuel ih =>
    intro n c
    unfold evalNode
    by_cases hn : n ∈ c.held
    · rw [if_pos hn]; exact Stores.refl preds c
    · rw [if_neg hn]
      have fold : ∀ (ps : List Node) (c0 : Cache),
          (∀ x ∈ c0.held, x ∈ (ps.foldl (fun c p => (evalNode preds fuel p c).addEdge p n) c0).held) ∧
          (∃ new, (ps.foldl (fun c p => (evalNode preds fuel p c).addEdge p n) c0).log = c0.log ++ new ∧
            (∀ m ∈ new, m ∈ (ps.foldl (fun c p => (evalNode preds fuel p c).addEdge p n) c0).held) ∧
            ∀ e ∈ (ps.foldl (fun c p => (evalNode preds fuel p c).addEdge p n) c0).edges,
              e ∈ c0.edges ∨ (e.2 ∈ new ∧ e.1 ∈ preds e.2) ∨ (e.2 = n ∧ e.1 ∈ ps)) := by
        intro ps
        induction ps with
        | nil => intro c0; exact ⟨fun _ h => h, [], by simp, by simp, fun e he => Or.inl he⟩
        | cons p ps ihp =>
          intro c0
          simp only [List.foldl_cons]
          have r1 := ih p c0
          obtain ⟨n1, l1⟩ := r1.logPrefix
          have d1 : (evalNode preds fuel p c0).log.drop c0.log.length = n1 := by rw [l1, List.drop_left]
          obtain ⟨m3, n3, l3, s3, o3⟩ := ihp ((evalNode preds fuel p c0).addEdge p n)
          refine ⟨fun x hx => m3 x (r1.mono x hx), n1 ++ n3, ?_, ?_, ?_⟩
          · rw [l3]; simp only [Cache.addEdge]; rw [l1, List.append_assoc]
          · intro m hm
            rcases List.mem_append.mp hm with hm | hm
            · exact m3 m (r1.stored m (by rw [d1]; exact hm))
            · exact s3 m hm
          · intro e he
            rcases o3 e he with h | ⟨h, hp⟩ | ⟨h, hp⟩
            · simp only [Cache.addEdge, List.mem_append, List.mem_singleton] at h
              rcases h with h | rfl
              · rcases r1.only e h with h | ⟨h, hp⟩
                · exact Or.inl h
                · rw [d1] at h; exact Or.inr (Or.inl ⟨List.mem_append_left _ h, hp⟩)
              · exact Or.inr (Or.inr ⟨rfl, by simp⟩)
            · exact Or.inr (Or.inl ⟨List.mem_append_right _ h, hp⟩)
            · exact Or.inr (Or.inr ⟨h, List.mem_cons_of_mem _ hp⟩)
      obtain ⟨mf, new, hl, sf, of⟩ := fold (preds n) (c.enter n)
      generalize (preds n).foldl (fun c p => (evalNode preds fuel p c).addEdge p n) (c.enter n) = cf
        at mf hl sf of
      have hl' : (cf.store n).log = c.log ++ (n :: new) := by
        simp only [Cache.store]; rw [hl]; simp [Cache.enter]
      have hd : (cf.store n).log.drop c.log.length = n :: new := by rw [hl', List.drop_left]
      refine ⟨?_, ?_, ?_, ⟨n :: new, hl'⟩⟩
      · intro x hx
        simp only [Cache.store, List.mem_append]
        exact Or.inl (mf x (by simpa [Cache.enter] using hx))
      · intro m hm
        rw [hd] at hm
        simp only [Cache.store, List.mem_append, List.mem_singleton]
        rcases List.mem_cons.mp hm with rfl | hm
        · exact Or.inr rfl
        · exact Or.inl (sf m hm)
      · intro e he
        rw [hd]
        have he' : e ∈ cf.edges := by simpa [Cache.store] using he
        rcases of e he' with h | ⟨h, hp⟩ | ⟨h, hp⟩
        · exact Or.inl (by simpa [Cache.enter] using h)
        · exact Or.inr ⟨List.mem_cons_of_mem _ h, hp⟩
        · exact Or.inr ⟨by rw [h]; simp, by rw [h]; exact hp⟩

theorem traceTargets_stores (preds : Node → List Node) (fuel : Nat) (targets : List Node) (c : Cache) :
    Stores preds c (traceTargets preds fuel targets c) := by
  unfold traceTargets
  induction targets generalizing c with
  | nil => exact Stores.refl preds c
  | cons t ts ih =>
    simp only [List.foldl_cons]
    by_cases ht : t ∈ c.inputs
    · rw [if_pos ht]; exact ih c
    · rw [if_neg ht]
      exact (evalNode_stores preds fuel t c).trans (ih _)

/-- every element whose formula ran while tracing has the edge from each element it calls -/
theorem trace_edges (preds : Node → List Node) (fuel : Nat) (targets : List Node) (c : Cache) :
    ∀ n ∈ calculated preds fuel targets c, ∀ p ∈ preds n,
      (p, n) ∈ (traceTargets preds fuel targets c).edges :=
  (traceTargets_records preds fuel targets c).calls

/-- after `evalNode` with a positive call-depth bound the element is held -/
theorem evalNode_holds (preds : Node → List Node) (fuel : Nat) (n : Node) (c : Cache) :
    n ∈ (evalNode preds (fuel + 1) n c).held := by
  unfold evalNode
  by_cases hn : n ∈ c.held
  · rw [if_pos hn]; exact hn
  · rw [if_neg hn]; simp [Cache.store]

/-- every target that is not a user input is held after tracing (call-depth bound ≥ 1) -/
theorem target_traced (preds : Node → List Node) (fuel : Nat) (targets : List Node) (c : Cache)
    (h : c.WF) : ∀ t ∈ targets, t ∉ c.inputs → t ∈ (traceTargets preds (fuel + 1) targets c).held := by
  unfold traceTargets
  induction targets generalizing c with
  | nil => intro t ht; cases ht
  | cons u us ih =>
    intro t ht hti
    simp only [List.foldl_cons]
    have step : ∀ c', c'.WF → c'.inputs = c.inputs → (t ∈ c'.held ∨ t ∈ us) →
        t ∈ (us.foldl (fun c t => if t ∈ c.inputs then c else evalNode preds (fuel + 1) t c) c').held := by
      intro c' w hi hor
      rcases hor with hh | hu
      · have g := (traceTargets_spec preds (fuel + 1) us c' w).2
        obtain ⟨_, _, _, gs, _, _⟩ := g
        exact gs t hh
      · exact ih c' w t hu (by rw [hi]; exact hti)
    by_cases hu : u ∈ c.inputs
    · rw [if_pos hu]
      rcases List.mem_cons.mp ht with rfl | ht
      · exact (hti hu).elim
      · exact step c h rfl (Or.inr ht)
    · rw [if_neg hu]
      obtain ⟨w, g⟩ := evalNode_spec preds (fuel + 1) u c [] h.toWFp
      rcases List.mem_cons.mp ht with rfl | ht
      · exact step _ w.toWF g.inputs (Or.inl (evalNode_holds preds fuel t c))
      · exact step _ w.toWF g.inputs (Or.inr ht)

/-- the successors of a node in a graph given by its edge list (`subgraph.successors`) -/
def succsOf (edges : List (Node × Node)) (p : Node) : List Node :=
  (edges.filter (fun e => e.1 = p)).map (·.2)

theorem mem_succsOf {edges : List (Node × Node)} {p n : Node} : n ∈ succsOf edges p ↔ (p, n) ∈ edges := by
  unfold succsOf
  simp only [List.mem_map, List.mem_filter, decide_eq_true_eq]
  constructor
  · rintro ⟨e, ⟨he, h1⟩, h2⟩
    have : e = (p, n) := by cases e; simp_all
    rw [← this]; exact he
  · intro h; exact ⟨(p, n), ⟨h, rfl⟩, rfl⟩

/-! ## generate, plan, execute on ANY cache (the repaired `generate_actions`, 77e9cc3) -/

theorem mem_withAncs {edges : List (Node × Node)} {t p : Node} (h : p ∈ withAncs edges t) :
    p = t ∨ ∃ e ∈ edges, e.1 = p := by
  unfold withAncs at h
  rcases mem_withDescs h with h | ⟨e, he, h⟩
  · exact Or.inl h
  · rw [List.mem_map] at he
    obtain ⟨e0, he0, rfl⟩ := he
    exact Or.inr ⟨e0, he0, h⟩

/-- every planned element has a value when tracing ends -/
theorem planned_held (preds : Node → List Node) (fuel : Nat) (targets : List Node) (c : Cache)
    (h : c.WF) (hct : ∀ e ∈ c.edges, e.1 ∈ c.held)
    (hcomp : ∀ n ∈ (traceTargets preds fuel targets c).held, n ∉ c.inputs → ∀ p ∈ preds n,
      p ∈ (traceTargets preds fuel targets c).held ∧ (p, n) ∈ (traceTargets preds fuel targets c).edges) :
    ∀ p ∈ planned preds fuel targets c, p ∈ (traceTargets preds fuel targets c).held ∧ p ∉ c.inputs := by
  have st := traceTargets_stores preds fuel targets c
  obtain ⟨_, gi, new, gl, gs, gg, gd⟩ := traceTargets_spec preds fuel targets c h
  have hcalc : calculated preds fuel targets c = new := by unfold calculated; rw [gl]; simp
  have hnewin : ∀ x ∈ new, x ∉ c.inputs := fun x hx hi => gd x hx (h.inputsHeld x hi)
  intro p hp
  unfold planned at hp
  rcases List.mem_append.mp hp with hp | hp
  · refine ⟨st.stored p hp, hnewin p (by rw [← hcalc]; exact hp)⟩
  · obtain ⟨_, hpi, t, _, _, hth, hanc⟩ := mem_preHeld hp
    refine ⟨?_, hpi⟩
    rcases mem_withAncs hanc with rfl | ⟨e, he, rfl⟩
    · exact hth
    · rcases st.only e he with h0 | ⟨hn, hpn⟩
      · exact st.mono _ (hct e h0)
      · have hn' : e.2 ∈ new := by rw [← hcalc]; exact hn
        exact (hcomp e.2 (st.stored e.2 hn) (hnewin e.2 hn') e.1 hpn).1

/-- **generate, plan, execute from ANY well-formed cache** (user inputs and calculated values).
`hct`: the trace edges of the cache start at elements that have a value; `hcomp`: when tracing
ends the cache is complete – every calculated value has its callees held and the calls recorded
(the cache was complete and tracing ran to completion); `hclosed`: what `nx.ancestors` delivers is
closed under callees (the model's backward search is complete on this graph); `hset`/`hd`/`ht`:
`ordered` is a duplicate-free topological order of exactly the planned elements.  Then: the
targets are held and value-pasted; whatever else is held was held before and is none of the
planned elements (nothing the targets were calculated from is left); user inputs and the trace
edges of the untouched values are as `generate_actions` left them; the execution ran exactly
the planned elements, each once, in the planned order. -/
theorem generate_then_execute_any (preds : Node → List Node) (fuel fuel' : Nat) (targets ordered : List Node)
    (size : Nat) (c : Cache) (hz : 1 ≤ size) (h : c.WF) (hct : ∀ e ∈ c.edges, e.1 ∈ c.held)
    (hcomp : ∀ n ∈ (traceTargets preds (fuel + 1) targets c).held, n ∉ c.inputs → ∀ p ∈ preds n,
      p ∈ (traceTargets preds (fuel + 1) targets c).held ∧
      (p, n) ∈ (traceTargets preds (fuel + 1) targets c).edges)
    (hclosed : ∀ n ∈ planned preds (fuel + 1) targets c, ∀ p ∈ preds n, p ∉ c.inputs →
      p ∈ planned preds (fuel + 1) targets c)
    (hset : ∀ x, x ∈ ordered ↔ x ∈ planned preds (fuel + 1) targets c) (hd : ordered.Nodup)
    (ht : isTopo (succsOf (traceTargets preds (fuel + 1) targets c).edges) ordered = true) :
    let plan := calcSteps ordered (succsOf (traceTargets preds (fuel + 1) targets c).edges)
      (targets.filter (fun t => !decide (t ∈ c.inputs))) size
    let L := generateLeaves preds (fuel + 1) targets c
    let r := execute preds (fuel' + 1) plan L
    (∀ x, x ∈ r.held ↔ x ∈ targets ∨ x ∈ L.held) ∧
    (∀ x ∈ L.held, x ∈ c.held ∧ x ∉ planned preds (fuel + 1) targets c) ∧
    (∀ x, x ∈ r.inputs ↔ x ∈ targets ∨ x ∈ c.inputs) ∧
    (∀ e, e ∈ r.edges ↔ e ∈ L.edges) ∧ r.log = L.log ++ ordered := by
  intro plan L r
  obtain ⟨wL, gin, gheld, _, gedges⟩ := generateLeaves_general preds (fuel + 1) targets c h
  obtain ⟨w1, gi, new, gl, gs, gg, gd⟩ := traceTargets_spec preds (fuel + 1) targets c h
  have hcalc : calculated preds (fuel + 1) targets c = new := by unfold calculated; rw [gl]; simp
  have hpl := planned_held preds (fuel + 1) targets c h hct hcomp
  have hLd : ∀ x ∈ L.held, x ∉ ordered := fun x hx ho => (gheld x hx).2 ((hset x).mp ho)
  have hLe : ∀ e ∈ L.edges, e.1 ∉ ordered := by
    intro e he ho
    have hp := (hset _).mp ho
    exact (clear_fold_gone (planned preds (fuel + 1) targets c) (traceTargets preds (fuel + 1) targets c) w1
      e.1 hp (hpl e.1 hp).1 e he).1 rfl
  have hp : ∀ n ∈ ordered, ∀ p ∈ preds n,
      (p ∈ ordered ∧ n ∈ succsOf (traceTargets preds (fuel + 1) targets c).edges p) ∨ p ∈ L.held := by
    intro n hn p hpn
    have hnp := (hset n).mp hn
    obtain ⟨hnh, hni⟩ := hpl n hnp
    obtain ⟨hph, hedge⟩ := hcomp n hnh hni p hpn
    by_cases hpi : p ∈ c.inputs
    · exact Or.inr (wL.inputsHeld p ((gin p).mpr hpi))
    · exact Or.inl ⟨(hset p).mpr (hclosed n hnp p hpn hpi), mem_succsOf.mpr hedge⟩
  obtain ⟨r1, r2, r3, r4⟩ := run_from_any ordered (succsOf (traceTargets preds (fuel + 1) targets c).edges) preds
    (targets.filter (fun t => !decide (t ∈ c.inputs))) size fuel' L hz ht hd wL hLd hLe hp
  have htgt : ∀ x, x ∈ targets → x ∉ c.inputs → x ∈ ordered := by
    intro x hx hxi
    rw [hset]
    have hheld := target_traced preds fuel targets c h x hx hxi
    by_cases hc : x ∈ calculated preds (fuel + 1) targets c
    · exact List.mem_append_left _ hc
    · exact List.mem_append_right _ (preHeld_of hx hxi hheld (self_mem_withDescs _ x) hc hxi)
  refine ⟨?_, gheld, ?_, r3, r4⟩
  · intro x
    show x ∈ r.held ↔ _
    rw [r1 x]
    constructor
    · rintro (⟨hx, _⟩ | hx)
      · exact Or.inl (List.mem_filter.mp hx).1
      · exact Or.inr hx
    · rintro (hx | hx)
      · by_cases hxi : x ∈ c.inputs
        · exact Or.inr (wL.inputsHeld x ((gin x).mpr hxi))
        · exact Or.inl ⟨List.mem_filter.mpr ⟨hx, by simp [hxi]⟩, htgt x hx hxi⟩
      · exact Or.inr hx
  · intro x
    show x ∈ r.inputs ↔ _
    rw [r2 x, gin x]
    constructor
    · rintro (⟨hx, _⟩ | hx)
      · exact Or.inl (List.mem_filter.mp hx).1
      · exact Or.inr hx
    · rintro (hx | hx)
      · by_cases hxi : x ∈ c.inputs
        · exact Or.inr hxi
        · exact Or.inl ⟨List.mem_filter.mpr ⟨hx, by simp [hxi]⟩, htgt x hx hxi⟩
      · exact Or.inr hx

/-- **generate, plan, execute from a cache that holds user inputs only.**  No hypothesis about the
graph is needed here: if tracing ran to completion (`hdone`: everything a traced element calls has a
value when tracing ends – the depth bound was not hit), then for ANY duplicate-free topological
order of the planned elements: exactly the user inputs and the targets are held at the end, all of
them marked as inputs (the targets value-pasted), no trace edge is left, and the execution ran
exactly the planned elements, each once, in the planned order. -/
theorem generate_then_execute (preds : Node → List Node) (fuel fuel' : Nat) (targets ordered : List Node)
    (size : Nat) (c : Cache) (hz : 1 ≤ size) (h : c.WF) (hc : ∀ x ∈ c.held, x ∈ c.inputs)
    (hdone : ∀ n ∈ calculated preds (fuel + 1) targets c, ∀ p ∈ preds n,
      p ∈ (traceTargets preds (fuel + 1) targets c).held)
    (hset : ∀ x, x ∈ ordered ↔ x ∈ planned preds (fuel + 1) targets c) (hd : ordered.Nodup)
    (ht : isTopo (succsOf (traceTargets preds (fuel + 1) targets c).edges) ordered = true) :
    let plan := calcSteps ordered (succsOf (traceTargets preds (fuel + 1) targets c).edges)
      (targets.filter (fun t => !decide (t ∈ c.inputs))) size
    let r := execute preds (fuel' + 1) plan (generateLeaves preds (fuel + 1) targets c)
    (∀ x, x ∈ r.held ↔ x ∈ targets ∨ x ∈ c.held) ∧ (∀ x, x ∈ r.inputs ↔ x ∈ r.held) ∧
    r.edges = [] ∧ r.log = (generateLeaves preds (fuel + 1) targets c).log ++ ordered := by
  intro plan r
  obtain ⟨g1, g2, g3⟩ := generateLeaves_spec preds (fuel + 1) targets c h hc
  obtain ⟨w1, gi, new, gl, gs, gg, gd⟩ := traceTargets_spec preds (fuel + 1) targets c h
  have hcalc : calculated preds (fuel + 1) targets c = new := by unfold calculated; rw [gl]; simp
  have he0 := edges_nil_of_inputs_only h hc
  have hcomp : ∀ n ∈ (traceTargets preds (fuel + 1) targets c).held, n ∉ c.inputs → ∀ p ∈ preds n,
      p ∈ (traceTargets preds (fuel + 1) targets c).held ∧
      (p, n) ∈ (traceTargets preds (fuel + 1) targets c).edges := by
    intro n hn hni p hpn
    have hnew : n ∈ calculated preds (fuel + 1) targets c := by
      rcases gg n hn with hh | hh
      · exact (hni (hc n hh)).elim
      · rw [hcalc]; exact hh
    exact ⟨hdone n hnew p hpn, trace_edges preds (fuel + 1) targets c n hnew p hpn⟩
  have hct : ∀ e ∈ c.edges, e.1 ∈ c.held := by rw [he0]; intro e he; cases he
  have hclosed : ∀ n ∈ planned preds (fuel + 1) targets c, ∀ p ∈ preds n, p ∉ c.inputs →
      p ∈ planned preds (fuel + 1) targets c := by
    intro n hn p hpn hpi
    obtain ⟨hnh, hni⟩ := planned_held preds (fuel + 1) targets c h hct hcomp n hn
    rcases gg p (hcomp n hnh hni p hpn).1 with hh | hh
    · exact (hpi (hc p hh)).elim
    · exact List.mem_append_left _ (by rw [hcalc]; exact hh)
  obtain ⟨a1, _, a3, a4, a5⟩ := generate_then_execute_any preds fuel fuel' targets ordered size c hz h hct
    hcomp hclosed hset hd ht
  refine ⟨?_, ?_, ?_, a5⟩
  · intro x; show x ∈ r.held ↔ _; rw [a1 x, g1 x]
  · intro x
    show x ∈ r.inputs ↔ x ∈ r.held
    rw [a1 x, a3 x, g1 x]
    constructor
    · rintro (hx | hx)
      · exact Or.inl hx
      · exact Or.inr (h.inputsHeld x hx)
    · rintro (hx | hx)
      · exact Or.inl hx
      · exact Or.inr (hc x hx)
  · rw [List.eq_nil_iff_forall_not_mem]
    intro e he
    have := (a4 e).mp he
    rw [g3] at this; cases this

end MxModel.CalcSteps
