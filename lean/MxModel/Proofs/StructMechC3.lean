import MxModel.Proofs.C3
/-!
# C3 facts the refinement proof of the incremental mechanism needs

* the depth bound of `mro` is irrelevant once it is large enough (`mro_le`, `mro_depth`);
* the linearisation is closed: every element has a linearisation that is a subsequence
  (`mro_closed`), the space is not in its own tail (`mro_not_mem_tail`, acyclicity), no duplicates
  (`mro_nodup`);
* **locality**: the linearisation of `q` depends only on the direct bases of the spaces in it
  (`mro_congr`) – an edit of the bases of `p` can only change the linearisation of `p` and of the
  spaces that have `p` in their linearisation;
* removing base relations can only shrink the set of spaces in a linearisation (`mro_subset_of_bases_subset`).
-/
namespace MxModel.C3

variable {α : Type} [DecidableEq α]

/-! ## `mapM` in `Option` -/

omit [DecidableEq α] in
theorem mapM_some_iff {β : Type} (f : α → Option β) : ∀ (l : List α) (ms : List β),
    l.mapM f = some ms ↔ l.map f = ms.map some := by
  intro l
  induction l with
  | nil =>
    intro ms
    cases ms <;> simp
  | cons a l ih =>
    intro ms
    simp only [List.mapM_cons, Option.bind_eq_bind, Option.pure_def, List.map_cons]
    cases ha : f a with
    | none =>
      simp only [Option.bind_none]
      cases ms <;> simp
    | some y =>
      simp only [Option.bind_some]
      cases hl : l.mapM f with
      | none =>
        simp only [Option.bind_none]
        cases ms with
        | nil => simp
        | cons z zs =>
          simp only [List.map_cons, List.cons.injEq, Option.some.injEq]
          constructor
          · intro h; cases h
          · rintro ⟨_, h⟩
            have := (ih zs).mpr h
            rw [hl] at this; cases this
      | some ml =>
        simp only [Option.bind_some, Option.some.injEq]
        have h1 := (ih ml).mp hl
        cases ms with
        | nil => simp
        | cons z zs =>
          simp only [List.cons.injEq, List.map_cons, Option.some.injEq]
          constructor
          · rintro ⟨rfl, rfl⟩; exact ⟨rfl, h1⟩
          · rintro ⟨rfl, h2⟩
            refine ⟨rfl, ?_⟩
            have := (ih zs).mpr h2
            rw [hl] at this
            exact Option.some.inj this

theorem mapM_congr {β : Type} (f g : α → Option β) (l : List α) (ms : List β)
    (h : l.mapM f = some ms) (hfg : ∀ x ∈ l, g x = f x) : l.mapM g = some ms := by
  rw [mapM_some_iff] at h ⊢
  rw [← h]
  exact List.map_congr_left hfg

theorem mapM_mem {β : Type} (f : α → Option β) (l : List α) (ms : List β) (h : l.mapM f = some ms) :
    (∀ x ∈ l, ∃ y ∈ ms, f x = some y) ∧ (∀ y ∈ ms, ∃ x ∈ l, f x = some y) := by
  rw [mapM_some_iff] at h
  constructor
  · intro x hx
    have : f x ∈ l.map f := List.mem_map.mpr ⟨x, hx, rfl⟩
    rw [h] at this
    obtain ⟨y, hy, hxy⟩ := List.mem_map.mp this
    exact ⟨y, hy, hxy.symm⟩
  · intro y hy
    have : some y ∈ ms.map some := List.mem_map.mpr ⟨y, hy, rfl⟩
    rw [← h] at this
    obtain ⟨x, hx, hxy⟩ := List.mem_map.mp this
    exact ⟨x, hx, hxy⟩

omit [DecidableEq α] in
theorem mapM_isSome {β : Type} (f : α → Option β) (l : List α) (h : ∀ x ∈ l, (f x).isSome) :
    ∃ ms, l.mapM f = some ms := by
  induction l with
  | nil => exact ⟨[], by simp⟩
  | cons a l ih =>
    obtain ⟨ms, hms⟩ := ih (fun x hx => h x (List.mem_cons_of_mem _ hx))
    have ha := h a (by simp)
    cases hfa : f a with
    | none => rw [hfa] at ha; cases ha
    | some y => exact ⟨y :: ms, by simp [List.mapM_cons, hfa, hms]⟩

/-! ## the shape of `mro (d+1)` -/

/-- unfolding of one level of `mro` -/
theorem mro_succ_some (bases : α → List α) (d : Nat) (s : α) (l : List α)
    (h : mro bases (d + 1) s = some l) :
    ∃ ms r, (bases s).mapM (mro bases d) = some ms ∧
      merge (totalLen (ms ++ [bases s])) (ms ++ [bases s]) = some r ∧ l = s :: r := by
  simp only [mro] at h
  cases hmm : (bases s).mapM (mro bases d) with
  | none => rw [hmm] at h; cases h
  | some ms =>
    rw [hmm] at h
    simp only [] at h
    cases hm : merge (totalLen (ms ++ [bases s])) (ms ++ [bases s]) with
    | none => rw [hm] at h; cases h
    | some r =>
      rw [hm] at h
      simp only [Option.map_some, Option.some.injEq] at h
      exact ⟨ms, r, rfl, hm, h.symm⟩

theorem mro_succ_of (bases : α → List α) (d : Nat) (s : α) (ms : List (List α)) (r : List α)
    (h1 : (bases s).mapM (mro bases d) = some ms)
    (h2 : merge (totalLen (ms ++ [bases s])) (ms ++ [bases s]) = some r) :
    mro bases (d + 1) s = some (s :: r) := by
  simp only [mro, h1, h2, Option.map_some]

/-- a larger depth bound gives the same linearisation -/
theorem mro_succ (bases : α → List α) : ∀ (d : Nat) (s : α) (l : List α),
    mro bases d s = some l → mro bases (d + 1) s = some l := by
  intro d
  induction d with
  | zero => intro s l h; simp [mro] at h
  | succ d ih =>
    intro s l h
    obtain ⟨ms, r, h1, h2, rfl⟩ := mro_succ_some bases d s l h
    refine mro_succ_of bases (d + 1) s ms r ?_ h2
    rw [mapM_some_iff] at h1 ⊢
    rw [← h1]
    apply List.map_congr_left
    intro x hx
    have : (mro bases d x) ∈ (bases s).map (mro bases d) := List.mem_map.mpr ⟨x, hx, rfl⟩
    rw [h1] at this
    obtain ⟨lx, _, hlx⟩ := List.mem_map.mp this
    rw [← hlx]
    exact ih x lx hlx.symm

theorem mro_le (bases : α → List α) (d d' : Nat) (hd : d ≤ d') (s : α) (l : List α)
    (h : mro bases d s = some l) : mro bases d' s = some l := by
  induction hd with
  | refl => exact h
  | step _ ih => exact mro_succ bases _ s l ih

/-- every direct base has a linearisation one level down, a subsequence of the tail -/
theorem mro_base (bases : α → List α) (d : Nat) (s : α) (r : List α)
    (h : mro bases (d + 1) s = some (s :: r)) (b : α) (hb : b ∈ bases s) :
    ∃ lb, mro bases d b = some lb ∧ lb.Sublist r := (mro_sublist bases d s r h).2 b hb

/-- every member of the tail is a direct base or in the linearisation of a direct base -/
theorem mro_tail_mem (bases : α → List α) (d : Nat) (s : α) (r : List α)
    (h : mro bases (d + 1) s = some (s :: r)) (x : α) (hx : x ∈ r) :
    x ∈ bases s ∨ ∃ b ∈ bases s, ∃ lb, mro bases d b = some lb ∧ x ∈ lb := by
  obtain ⟨ms, r', h1, h2, h3⟩ := mro_succ_some bases d s _ h
  simp only [List.cons.injEq, true_and] at h3
  subst h3
  obtain ⟨sq, hsq, hxs⟩ := merge_mem (α := α) _ _ _ h2 x hx
  simp only [List.mem_append, List.mem_singleton] at hsq
  rcases hsq with hsq | rfl
  · right
    obtain ⟨b, hb, hbm⟩ := (mapM_mem _ _ _ h1).2 sq hsq
    exact ⟨b, hb, sq, hbm, hxs⟩
  · exact Or.inl hxs

/-- **closure**: every space of a linearisation has itself a linearisation (at the same depth
bound), and it is a subsequence -/
theorem mro_closed (bases : α → List α) : ∀ (d : Nat) (q : α) (l : List α),
    mro bases d q = some l → ∀ x ∈ l, ∃ lx, mro bases d x = some lx ∧ lx.Sublist l := by
  intro d
  induction d with
  | zero => intro q l h; simp [mro] at h
  | succ d ih =>
    intro q l h x hx
    obtain ⟨r, rfl⟩ := mro_head bases _ q l h
    simp only [List.mem_cons] at hx
    rcases hx with rfl | hx
    · exact ⟨_, h, List.Sublist.refl _⟩
    · rcases mro_tail_mem bases d q r h x hx with hb | ⟨b, hb, lb, hlb, hxb⟩
      · obtain ⟨lb, h1, h2⟩ := mro_base bases d q r h x hb
        exact ⟨lb, mro_succ bases d x lb h1, List.Sublist.cons _ h2⟩
      · obtain ⟨lx, h1, h2⟩ := ih b lb hlb x hxb
        obtain ⟨lb', h3, h4⟩ := mro_base bases d q r h b hb
        rw [hlb] at h3; cases h3
        exact ⟨lx, mro_succ bases d x lx h1, List.Sublist.cons _ (h2.trans h4)⟩

/-- **acyclic**: a space is not in the tail of its own linearisation -/
theorem mro_not_mem_tail (bases : α → List α) (d : Nat) (q : α) (r : List α)
    (h : mro bases d q = some (q :: r)) : q ∉ r := by
  intro hq
  obtain ⟨lx, h1, h2⟩ := mro_closed bases d q _ h q (List.mem_cons_of_mem _ hq)
  rw [h] at h1; cases h1
  -- the whole list would be a subsequence of its tail after dropping the head … use lengths
  cases d with
  | zero => simp [mro] at h
  | succ d =>
    rcases mro_tail_mem bases d q r h q hq with hb | ⟨b, hb, lb, hlb, hxb⟩
    · obtain ⟨lb, h3, h4⟩ := mro_base bases d q r h q hb
      have h5 := mro_succ bases d q lb h3
      rw [h] at h5; cases h5
      have := h4.length_le
      simp at this
      omega
    · obtain ⟨lq, h3, h4⟩ := mro_closed bases d b lb hlb q hxb
      obtain ⟨lb', h5, h6⟩ := mro_base bases d q r h b hb
      rw [hlb] at h5; cases h5
      have h7 := mro_succ bases d q lq h3
      rw [h] at h7; cases h7
      have := (h4.trans h6).length_le
      simp at this
      omega

/-- the linearisation of a member of the tail lies in the tail -/
theorem mro_closed_tail (bases : α → List α) (d : Nat) (q : α) (r : List α)
    (h : mro bases d q = some (q :: r)) (x : α) (hx : x ∈ r) :
    ∃ rx, mro bases d x = some (x :: rx) ∧ (x :: rx).Sublist r := by
  obtain ⟨lx, h1, h2⟩ := mro_closed bases d q _ h x (List.mem_cons_of_mem _ hx)
  obtain ⟨rx, rfl⟩ := mro_head bases d x lx h1
  refine ⟨rx, h1, ?_⟩
  have hne : x ≠ q := fun e => mro_not_mem_tail bases d q r h (e ▸ hx)
  cases h2 with
  | cons _ h => exact h
  | cons_cons _ _ => exact absurd rfl hne

/-- the direct bases of every space of a linearisation are in the linearisation -/
theorem mro_bases_subset (bases : α → List α) (d : Nat) (q : α) (l : List α)
    (h : mro bases d q = some l) (x : α) (hx : x ∈ l) (b : α) (hb : b ∈ bases x) : b ∈ l := by
  obtain ⟨lx, h1, h2⟩ := mro_closed bases d q l h x hx
  obtain ⟨rx, rfl⟩ := mro_head bases d x lx h1
  cases d with
  | zero => simp [mro] at h
  | succ d =>
    have := (mro_sublist bases d x rx h1).1.subset hb
    exact h2.subset (List.mem_cons_of_mem _ this)

/-! ## no duplicates -/

theorem merge_nodup : ∀ (fuel : Nat) (seqs : List (List α)) (res : List α),
    merge fuel seqs = some res → res.Nodup := by
  intro fuel
  induction fuel with
  | zero =>
    intro seqs res h
    simp only [merge] at h
    split at h
    · cases h; simp
    · cases h
  | succ f ih =>
    intro seqs res h
    simp only [merge] at h
    split at h
    · cases h; simp
    · split at h
      · cases h
      · rename_i c hc
        cases hm : merge f (dropHead c (seqs.filter (· ≠ []))) with
        | none => rw [hm] at h; cases h
        | some r =>
          rw [hm] at h
          simp only [Option.map_some, Option.some.injEq] at h
          subst h
          refine List.nodup_cons.mpr ⟨?_, ih _ r hm⟩
          intro hcr
          obtain ⟨s', hs', hcs'⟩ := merge_mem _ _ _ hm c hcr
          obtain ⟨_, _, _, hnt⟩ := pick_mem _ _ _ hc
          unfold dropHead at hs'
          obtain ⟨s, hs, rfl⟩ := List.mem_map.mp hs'
          have hns : inTail c s = false := by
            have := List.any_eq_false.mp hnt s hs
            simpa using this
          cases s with
          | nil => cases hcs'
          | cons y ys =>
            simp only [inTail, List.tail_cons, List.contains_eq_mem, decide_eq_false_iff_not] at hns
            simp only [] at hcs'
            split at hcs'
            · exact hns hcs'
            · rename_i hyc
              simp only [List.mem_cons] at hcs'
              rcases hcs' with rfl | h'
              · exact hyc rfl
              · exact hns h'

theorem mro_nodup (bases : α → List α) (d : Nat) (q : α) (l : List α)
    (h : mro bases d q = some l) : l.Nodup := by
  cases d with
  | zero => simp [mro] at h
  | succ d =>
    obtain ⟨ms, r, _, h2, rfl⟩ := mro_succ_some bases d q l h
    exact List.nodup_cons.mpr ⟨mro_not_mem_tail bases _ q r h, merge_nodup _ _ _ h2⟩

/-! ## locality -/

/-- **the linearisation of `q` depends only on the direct bases of the spaces in it** -/
theorem mro_congr (bases bases' : α → List α) : ∀ (d : Nat) (q : α) (l : List α),
    mro bases d q = some l → (∀ x ∈ l, bases' x = bases x) → mro bases' d q = some l := by
  intro d
  induction d with
  | zero => intro q l h; simp [mro] at h
  | succ d ih =>
    intro q l h hb
    obtain ⟨ms, r, h1, h2, rfl⟩ := mro_succ_some bases d q l h
    have hq : bases' q = bases q := hb q (by simp)
    refine mro_succ_of bases' d q ms r ?_ (by rw [hq]; exact h2)
    rw [hq]
    refine mapM_congr _ _ _ _ h1 ?_
    intro b hbq
    obtain ⟨lb, h3, h4⟩ := mro_base bases d q r h b hbq
    rw [h3]
    exact ih b lb h3 (fun x hx => hb x (List.mem_cons_of_mem _ (h4.subset hx)))

/-- the depth bound never needs to exceed the length of the linearisation -/
theorem mro_depth (bases : α → List α) : ∀ (d : Nat) (q : α) (l : List α),
    mro bases d q = some l → mro bases l.length q = some l := by
  intro d
  induction d with
  | zero => intro q l h; simp [mro] at h
  | succ d ih =>
    intro q l h
    obtain ⟨ms, r, h1, h2, rfl⟩ := mro_succ_some bases d q l h
    simp only [List.length_cons]
    refine mro_succ_of bases r.length q ms r ?_ h2
    refine mapM_congr _ _ _ _ h1 ?_
    intro b hbq
    obtain ⟨lb, h3, h4⟩ := mro_base bases d q r h b hbq
    rw [h3]
    exact mro_le bases _ _ h4.length_le b lb (ih b lb h3)

/-- combined: same direct bases on the linearisation, any depth bound that is large enough -/
theorem mro_transfer (bases bases' : α → List α) (d d' : Nat) (q : α) (l : List α)
    (h : mro bases d q = some l) (hb : ∀ x ∈ l, bases' x = bases x) (hd : l.length ≤ d') :
    mro bases' d' q = some l :=
  mro_le bases' _ _ hd q l (mro_depth bases' d q l (mro_congr bases bases' d q l h hb))

/-- fewer base relations, fewer spaces in the linearisation -/
theorem mro_subset_of_bases_subset (bases bases' : α → List α) (hsub : ∀ x, bases' x ⊆ bases x) :
    ∀ (d' d : Nat) (q : α) (l l' : List α), mro bases d q = some l → mro bases' d' q = some l' →
      (∀ x ∈ l, ∃ lx, mro bases d x = some lx) → l' ⊆ l := by
  intro d'
  induction d' with
  | zero => intro d q l l' _ h; simp [mro] at h
  | succ d' ih =>
    intro d q l l' h h' hall x hx
    obtain ⟨r', rfl⟩ := mro_head bases' _ q l' h'
    obtain ⟨r, rfl⟩ := mro_head bases _ q l h
    simp only [List.mem_cons] at hx
    rcases hx with rfl | hx
    · simp
    · cases d with
      | zero => simp [mro] at h
      | succ d =>
        rcases mro_tail_mem bases' d' q r' h' x hx with hb | ⟨b, hb, lb', hlb', hxb⟩
        · exact List.mem_cons_of_mem _ ((mro_sublist bases d q r h).1.subset (hsub q hb))
        · obtain ⟨lb, h3, h4⟩ := mro_base bases d q r h b (hsub q hb)
          have h3' := mro_succ bases d b lb h3
          have := ih (d + 1) b lb lb' h3' hlb' (fun y hy =>
            hall y (List.mem_cons_of_mem _ (h4.subset hy))) hxb
          exact List.mem_cons_of_mem _ (h4.subset this)

end MxModel.C3

namespace MxModel.C3
variable {α : Type} [DecidableEq α]

/-- every space of a linearisation other than the first is a direct base of a space of it -/
theorem mro_mem_cases (bases : α → List α) : ∀ (d : Nat) (q : α) (l : List α),
    mro bases d q = some l → ∀ x ∈ l, x = q ∨ ∃ y ∈ l, x ∈ bases y := by
  intro d
  induction d with
  | zero => intro q l h; simp [mro] at h
  | succ d ih =>
    intro q l h x hx
    obtain ⟨r, rfl⟩ := mro_head bases _ q l h
    simp only [List.mem_cons] at hx
    rcases hx with rfl | hx
    · exact Or.inl rfl
    · right
      rcases mro_tail_mem bases d q r h x hx with hb | ⟨b, hb, lb, hlb, hxb⟩
      · exact ⟨q, by simp, hb⟩
      · obtain ⟨lb', h3, h4⟩ := mro_base bases d q r h b hb
        rw [hlb] at h3; cases h3
        rcases ih b lb hlb x hxb with rfl | ⟨y, hy, hxy⟩
        · exact ⟨q, by simp, hb⟩
        · exact ⟨y, List.mem_cons_of_mem _ (h4.subset hy), hxy⟩

end MxModel.C3

namespace MxModel.C3
variable {α : Type} [DecidableEq α]

/-- same direct bases on the linearisation, a depth bound that is not smaller -/
theorem mro_transfer_le (bases bases' : α → List α) (d d' : Nat) (q : α) (l : List α)
    (h : mro bases d q = some l) (hb : ∀ x ∈ l, bases' x = bases x) (hd : d ≤ d') :
    mro bases' d' q = some l :=
  mro_le bases' _ _ hd q l (mro_congr bases bases' d q l h hb)

end MxModel.C3
