import MxModel.Proofs.StructMechOps3
/-!
# Preservation of `Inv` by `newSpace`
-/
namespace MxModel.SM
open MxModel.C3

/-- a state with one more space, appended -/
def St.push (st : St) (ns : Space) : St := { st with spaces := st.spaces ++ [ns] }

theorem ids_push (st : St) (ns : Space) : (st.push ns).ids = st.ids ++ [ns.id] := by
  simp [St.push, St.ids]

theorem find_push (st : St) (ns : Space) (hid : ns.id ∉ st.ids) (q : Path) :
    (st.push ns).find q = if q = ns.id then some ns else st.find q := by
  unfold St.push St.find
  simp only [List.find?_append]
  by_cases hq : q = ns.id
  · subst hq
    have : st.find ns.id = none := (find_none_iff st _).mpr hid
    unfold St.find at this
    rw [this]
    simp
  · have : (ns.id == q) = false := by simpa using fun e => hq e.symm
    simp [hq, this]

theorem cont_push (st : St) (ns : Space) (hid : ns.id ∉ st.ids) (a : Attr) (q : Path) :
    (st.push ns).cont a q = if q = ns.id then ns.get a else st.cont a q := by
  unfold St.cont
  rw [find_push st ns hid]
  by_cases hq : q = ns.id
  · simp only [hq, if_true]
  · simp only [hq, if_false]

theorem basesOf_push (st : St) (ns : Space) (hid : ns.id ∉ st.ids) (q : Path) :
    (st.push ns).basesOf q = if q = ns.id then ns.bases else st.basesOf q := by
  unfold St.basesOf
  rw [find_push st ns hid]
  by_cases hq : q = ns.id
  · simp only [hq, if_true]
  · simp only [hq, if_false]

theorem mro_eq_of_transfer (st st' : St) (q : Path) (hm : st.mro q = some (q :: st.tail q))
    (hb : ∀ x ∈ q :: st.tail q, st'.basesOf x = st.basesOf x) (hl : st.spaces.length ≤ st'.spaces.length) :
    st'.mro q = some (q :: st.tail q) := by
  unfold St.mro at hm ⊢
  exact mro_transfer_le st.basesOf st'.basesOf _ _ q _ hm hb (by omega)

theorem updateAll_singleton (st : St) (q : Path) : st.updateAll [q] = st.updateDerived q := rfl

theorem inv_newSpace_core (st : St) (h : Inv st) (parent : Path) (name : String) (bases : List Path)
    (hpar : parent = [] ∨ parent ∈ st.ids) (hbs : ∀ b ∈ bases, b ∈ st.ids)
    (hca : st.canAdd parent name .space = true) (l : List Path)
    (hmro : (st.push { id := parent ++ [name], bases := dedupLast bases, cells := [], refs := [] }).mro
      (parent ++ [name]) = some l)
    (hnc : (st.push { id := parent ++ [name], bases := dedupLast bases, cells := [], refs := [] }).noConflict
      l [] = true) :
    Inv ((st.push { id := parent ++ [name], bases := dedupLast bases, cells := [], refs := [] }).updateDerived
      (parent ++ [name])) := by
  generalize hns : ({ id := parent ++ [name], bases := dedupLast bases, cells := [], refs := [] } : Space) = ns
    at hmro hnc ⊢
  have hnsid : ns.id = parent ++ [name] := by rw [← hns]
  rw [← hnsid] at hmro ⊢
  have hnsb : ns.bases = dedupLast bases := by rw [← hns]
  have hnsg : ∀ a, ns.get a = [] := by intro a; rw [← hns]; cases a <;> rfl
  -- what the name check gives
  have hempty : ([] : Path) ∉ st.ids := fun he => (h.wf.tree [] he).1 rfl
  have hcn : name ∉ st.childNames parent ∧ (parent = [] → name ∉ st.globals) ∧
      (∀ a, st.mem a parent name = none) := by
    unfold St.canAdd at hca
    by_cases hp0 : parent = []
    · subst hp0
      simp only [beq_self_eq_true, if_true, Bool.not_eq_true', Bool.or_eq_false_iff,
        List.contains_eq_mem, decide_eq_false_iff_not] at hca
      exact ⟨hca.1, fun _ => hca.2, fun a => St.mem_of_not_mem st a [] name hempty⟩
    · have hpb : (parent == []) = false := by simpa using hp0
      simp only [hpb, Bool.false_eq_true, if_false] at hca
      split at hca
      · cases hca
      · rename_i hk0
        have hkp : st.kindOf parent name = none := by
          cases hk : st.kindOf parent name with
          | none => rfl
          | some _ => rw [hk] at hk0; simp at hk0
        obtain ⟨h1, h2, h3, _⟩ := kindOf_none st parent name hkp
        exact ⟨h2, fun e => absurd e hp0, fun a => by cases a <;> assumption⟩
  have hfresh : ns.id ∉ st.ids := by
    rw [hnsid, ← mem_childNames]; exact hcn.1
  generalize hst1 : st.push ns = st1 at hmro hnc ⊢
  have hids : st1.ids = st.ids ++ [ns.id] := by rw [← hst1]; exact ids_push st ns
  have hlen : st1.spaces.length = st.spaces.length + 1 := by rw [← hst1]; simp [St.push]
  have hglob : st1.globals = st.globals := by rw [← hst1]; rfl
  have hcont : ∀ a q, st1.cont a q = if q = ns.id then [] else st.cont a q := by
    intro a q; rw [← hst1, cont_push st ns hfresh, hnsg]
  have hbases : ∀ q, st1.basesOf q = if q = ns.id then dedupLast bases else st.basesOf q := by
    intro q; rw [← hst1, basesOf_push st ns hfresh, hnsb]
  have hcont' : ∀ a q, q ∈ st1.ids → st1.cont a q = st.cont a q := by
    intro a q _
    rw [hcont]
    split
    · rename_i e; rw [e, St.cont_of_not_mem st a _ hfresh]
    · rfl
  have hne : ∀ q ∈ st.ids, q ≠ ns.id := fun q hq e => hfresh (e ▸ hq)
  have hmro_old : ∀ q ∈ st.ids, st1.mro q = some (q :: st.tail q) := by
    intro q hq
    apply mro_eq_of_transfer st st1 q (h.wf.mro_all q) _ (by omega)
    intro x hx
    rw [hbases]
    have hxi : x ∈ st.ids := by
      simp only [List.mem_cons] at hx
      rcases hx with rfl | hx
      · exact hq
      · exact h.wf.tail_mem_ids q x hx
    simp [hne x hxi]
  have hwf1 : WF st1 := by
    refine ⟨?_, ?_, ?_, ?_, ?_⟩
    · rw [hids, List.nodup_append]
      refine ⟨h.wf.nodup, by simp, ?_⟩
      intro a ha b hb
      simp only [List.mem_singleton] at hb
      subst hb
      exact hne a ha
    · intro q b hb
      rw [hids, List.mem_append]
      left
      rw [hbases] at hb
      split at hb
      · exact hbs b ((mem_dedupLast bases b).mp hb)
      · exact h.wf.bases q b hb
    · intro q hq
      rw [hids, List.mem_append, List.mem_singleton] at hq
      rcases hq with hq | rfl
      · rw [hmro_old q hq]; rfl
      · rw [hmro]; rfl
    · intro a q
      rw [hcont]
      split
      · simp [keys]
      · exact h.wf.keys a q
    · intro q hq
      rw [hids, List.mem_append, List.mem_singleton] at hq
      rcases hq with hq | rfl
      · obtain ⟨h1, h2⟩ := h.wf.tree q hq
        refine ⟨h1, h2.imp id (fun h3 => ?_)⟩
        rw [hids, List.mem_append]; exact Or.inl h3
      · rw [hnsid]
        refine ⟨by simp, ?_⟩
        rw [List.dropLast_concat]
        rcases hpar with hp | hp
        · exact Or.inl hp
        · right; rw [hids, List.mem_append]; exact Or.inl hp
  have htail : ∀ q ∈ st1.ids, q ∉ [ns.id] → st1.tail q = st.tail q := by
    intro q hq hqn
    rw [hids, List.mem_append] at hq
    have hq' : q ∈ st.ids := hq.resolve_right hqn
    unfold St.tail
    rw [hmro_old q hq', h.wf.mro_all q]
  rw [← updateAll_singleton]
  have R := rederived_updateAll st1 hwf1.keys [ns.id]
  refine ⟨hwf1.of_shape R.shape R.keys, good_rebase st st1 h hwf1 hcont' _ htail, ?_⟩
  have hnsi : ns.id ∈ st1.ids := by rw [hids]; simp
  have hl : l = ns.id :: st1.tail ns.id := by
    have := hwf1.mro_all ns.id
    rw [hmro] at this
    exact Option.some.inj this
  rw [hl] at hnc
  have hdn := disj_of_noConflict R ns.id (by simp) hnsi [] hnc
  have hold : ∀ a q n, q ≠ ns.id → (st1.updateAll [ns.id]).mem a q n = st.mem a q n := by
    intro a q n hq
    rw [St.mem_eq, R.other a q (by simpa using hq), hcont, St.mem_eq]
    simp [hq]
  have hchild : ∀ q n, n ∈ (st1.updateAll [ns.id]).childNames q ↔
      n ∈ st.childNames q ∨ (q = parent ∧ n = name) := by
    intro q n
    rw [R.shape.childNames, mem_childNames, mem_childNames, hids, List.mem_append, List.mem_singleton, hnsid]
    simp
  have hpne : parent ≠ ns.id := by
    intro e
    have := congrArg List.length e
    rw [hnsid] at this
    simp at this
  refine ⟨?_, ?_, ?_⟩
  · intro q n hc
    by_cases hq : q = ns.id
    · subst hq; exact hdn.1 n hc
    · rw [hold .cells q n hq] at hc
      rw [hold .refs q n hq]
      exact h.disj.cr q n hc
  · intro q n hn
    rw [hchild] at hn
    rcases hn with hn | ⟨rfl, rfl⟩
    · by_cases hq : q = ns.id
      · -- a child of the new space would be an old space without a parent
        exfalso
        have hci := (mem_childNames st q n).mp hn
        obtain ⟨_, h2⟩ := h.wf.tree _ hci
        rw [List.dropLast_concat] at h2
        rcases h2 with h2 | h2
        · rw [hq, hnsid] at h2; simp at h2
        · exact hfresh (hq ▸ h2)
      · rw [hold .cells q n hq, hold .refs q n hq]
        exact h.disj.child q n hn
    · rw [hold .cells q n hpne, hold .refs q n hpne]
      exact ⟨hcn.2.2 .cells, hcn.2.2 .refs⟩
  · intro n hn
    rw [R.shape.globals, hglob] at hn
    rw [hchild]
    rintro (hc | ⟨hp, rfl⟩)
    · exact h.disj.glob n hn hc
    · exact hcn.2.1 hp.symm hn

theorem inv_newSpace (kw : List String) (st st' : St) (h : Inv st) (parent : Path) (name : String)
    (bases : List Path) (hop : st.newSpace kw parent name bases = some st') : Inv st' := by
  unfold St.newSpace at hop
  split at hop
  · cases hop
  · rename_i hg1
    split at hop
    · cases hop
    · rename_i hg2
      split at hop
      · cases hop
      · simp only at hop
        have hg1a : (parent == [] || st.has parent) = true := by
          cases hx : (parent == [] || st.has parent) with
          | true => rfl
          | false => rw [hx] at hg1; simp at hg1
        have hg1b : bases.all st.has = true := by
          cases hx : bases.all st.has with
          | true => rfl
          | false => rw [hx] at hg1; simp at hg1
        have hpar : parent = [] ∨ parent ∈ st.ids := by
          rw [Bool.or_eq_true] at hg1a
          rcases hg1a with hp | hp
          · exact Or.inl (by simpa using hp)
          · exact Or.inr ((has_iff_mem_ids st parent).mp hp)
        have hbs : ∀ b ∈ bases, b ∈ st.ids := fun b hb =>
          (has_iff_mem_ids st b).mp (List.all_eq_true.mp hg1b b hb)
        have hca : st.canAdd parent name .space = true := of_not_not_true hg2
        split at hop
        · cases hop
        · rename_i l hmro
          split at hop
          · cases hop
          · rename_i hnc
            simp only [Option.some.injEq] at hop
            subst hop
            exact inv_newSpace_core st h parent name bases hpar hbs hca l hmro (of_not_not_true hnc)

end MxModel.SM
