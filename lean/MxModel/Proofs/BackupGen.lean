import MxModel.Proofs.Backup
/-! The result of an *uninterrupted* rotation and save (C14, generations kept in order). -/
namespace MxModel.Backup

/-- slots `n … m-1` move up by one, slot `n` becomes free, what slot `m` held is gone -/
def shift (fs : FS) (n m : Nat) : FS :=
  fun j => if j = n then .absent else if n < j ∧ j ≤ m then fs (j - 1) else fs j

def Slot.isDir : Slot → Bool
  | .good .dir _ => true
  | .part .dir _ => true
  | _ => false

theorem set_set (fs : FS) (i : Nat) (s t : Slot) : (fs.set i s).set i t = fs.set i t := by
  funext j; simp only [FS.set]; split <;> rfl

theorem set_absent_of_absent (fs : FS) (i : Nat) (h : fs i = .absent) : fs.set i .absent = fs := by
  funext j; simp only [FS.set]; split
  · rename_i hj; rw [hj, h]
  · rfl

theorem run_rmTree (i : Nat) : ∀ (c : Nat) (fs : FS) (k : Nat), (fs i).isDir = true → c + 1 ≤ k →
    run (List.replicate c (.rm i false) ++ [.rm i true]) k fs = (fs.set i .absent, true) := by
  intro c
  induction c with
  | zero =>
    intro fs k hd hk
    obtain ⟨k', rfl⟩ : ∃ k', k = k' + 1 := ⟨k - 1, by omega⟩
    simp only [List.replicate, List.nil_append, run_succ_cons, step]
    cases hfi : fs i with
    | absent => rw [hfi] at hd; cases hd
    | good c g => cases c with
      | dir => simp
      | zip => rw [hfi] at hd; cases hd
    | part c g => cases c with
      | dir => simp
      | zip => rw [hfi] at hd; cases hd
  | succ c ih =>
    intro fs k hd hk
    obtain ⟨k', rfl⟩ : ∃ k', k = k' + 1 := ⟨k - 1, by omega⟩
    simp only [List.replicate, List.cons_append, run_succ_cons]
    have hstep : step (.rm i false) fs = some (fs.set i (fs i).damaged) := by
      simp only [step]
      cases hfi : fs i with
      | absent => rw [hfi] at hd; cases hd
      | good c g => cases c with
        | dir => simp
        | zip => rw [hfi] at hd; cases hd
      | part c g => cases c with
        | dir => simp
        | zip => rw [hfi] at hd; cases hd
    rw [hstep]
    simp only []
    rw [ih (fs.set i (fs i).damaged) k' ?_ (by omega), set_set]
    rw [set_same]
    cases hfi : fs i with
    | absent => rw [hfi] at hd; cases hd
    | good c g => cases c with
      | dir => rfl
      | zip => rw [hfi] at hd; cases hd
    | part c g => cases c with
      | dir => rfl
      | zip => rw [hfi] at hd; cases hd

/-- removing the oldest generation, uninterrupted -/
theorem rot0_complete (fs : FS) (nrm n k : Nat) (hk : (rot fs nrm 0 n).length ≤ k) :
    run (rot fs nrm 0 n) k fs = (fs.set n .absent, true) := by
  simp only [rot] at hk ⊢
  cases hfn : fs n with
  | absent => simp only [run_nil]; rw [set_absent_of_absent fs n hfn]
  | good c g =>
    cases c with
    | zip =>
      rw [hfn] at hk
      simp only [List.length_cons, List.length_nil] at hk
      obtain ⟨k', rfl⟩ : ∃ k', k = k' + 1 := ⟨k - 1, by omega⟩
      simp [run_succ_cons, step, hfn]
    | dir =>
      rw [hfn] at hk
      simp only [rmSteps, List.length_append, List.length_replicate, List.length_cons,
        List.length_nil] at hk
      exact run_rmTree n _ fs k (by rw [hfn]; rfl) (by omega)
  | part c g =>
    cases c with
    | zip =>
      rw [hfn] at hk
      simp only [List.length_cons, List.length_nil] at hk
      obtain ⟨k', rfl⟩ : ∃ k', k = k' + 1 := ⟨k - 1, by omega⟩
      simp [run_succ_cons, step, hfn]
    | dir =>
      rw [hfn] at hk
      simp only [rmSteps, List.length_append, List.length_replicate, List.length_cons,
        List.length_nil] at hk
      exact run_rmTree n _ fs k (by rw [hfn]; rfl) (by omega)

/-- an uninterrupted rotation: with `m` the first free slot (or `max`), slots `n … m-1` move up
by one -/
theorem rot_complete (fs : FS) (nrm : Nat) : ∀ (f n m k : Nat),
    (∀ j, n ≤ j → j < m → fs j ≠ .absent) → n ≤ m → m ≤ n + f → (m < n + f → fs m = .absent) →
    (rot fs nrm f n).length ≤ k →
    run (rot fs nrm f n) k fs = (shift fs n m, true) := by
  intro f
  induction f with
  | zero =>
    intro n m k _ h1 h2 _ hk
    have hm : m = n := by omega
    subst hm
    rw [rot0_complete fs nrm m k hk]
    congr 1
    funext j
    simp only [FS.set, shift]
    split
    · rfl
    · rw [if_neg (by omega)]
  | succ f ih =>
    intro n m k hne h1 h2 hfree hk
    simp only [rot] at hk ⊢
    by_cases hn : fs n = .absent
    · have hm : m = n := by
        rcases Nat.lt_or_ge n m with hlt | hge
        · exact absurd hn (hne n (Nat.le_refl _) hlt)
        · omega
      subst hm
      rw [if_pos hn, run_nil]
      congr 1
      funext j
      simp only [shift]
      split
      · rename_i hj; rw [hj, hn]
      · rw [if_neg (by omega)]
    · rw [if_neg hn] at hk ⊢
      have hm : n + 1 ≤ m := by
        rcases Nat.lt_or_ge n m with hlt | hge
        · exact hlt
        · have : m = n := by omega
          subst this
          exact absurd (hfree (by omega)) hn
      simp only [List.length_append, List.length_cons, List.length_nil] at hk
      have hA := ih (n + 1) m k (fun j hj1 hj2 => hne j (by omega) hj2) hm (by omega)
        (fun h => hfree (by omega)) (by omega)
      rw [run_append, hA]
      simp only [if_true]
      obtain ⟨k', hk'⟩ : ∃ k', k - (rot fs nrm f (n + 1)).length = k' + 1 :=
        ⟨k - (rot fs nrm f (n + 1)).length - 1, by omega⟩
      rw [hk', run_succ_cons]
      have h0 : shift fs (n + 1) m n = fs n := by
        simp only [shift]; rw [if_neg (by omega), if_neg (by omega)]
      have h1' : shift fs (n + 1) m (n + 1) = .absent := by simp [shift]
      have hstep : step (.rename n) (shift fs (n + 1) m) =
          some (((shift fs (n + 1) m).set (n + 1) (fs n)).set n .absent) := by
        simp only [step, h0, h1', hn, if_false, if_true]
      rw [hstep]
      simp only [run_nil]
      congr 1
      funext j
      simp only [FS.set, shift]
      by_cases hj : j = n
      · simp [hj]
      · rw [if_neg hj, if_neg hj]
        by_cases hj1 : j = n + 1
        · subst hj1
          rw [if_pos rfl, if_pos (by omega)]
          simp
        · rw [if_neg hj1, if_neg hj1]
          by_cases hj2 : n + 1 < j ∧ j ≤ m
          · rw [if_pos hj2, if_pos (by omega)]
          · rw [if_neg hj2, if_neg (by omega)]

/-! ### the writers, uninterrupted -/

theorem run_writes (g : Nat) : ∀ (body : List (Option TmpKind)) (fs : FS) (k : Nat),
    (fs 0).isDir = true → body.length + 1 ≤ k →
    run (body.map (dirOp g) ++ [.write g true]) k fs = (fs.set 0 (.good .dir g), true) := by
  intro body
  have hstep : ∀ (fs : FS) (l : Bool), (fs 0).isDir = true →
      step (.write g l) fs = some (fs.set 0 (if l then .good .dir g else .part .dir g)) := by
    intro fs l hd
    simp only [step]
    cases hfi : fs 0 with
    | absent => rw [hfi] at hd; cases hd
    | good c g' => cases c with
      | dir => rfl
      | zip => rw [hfi] at hd; cases hd
    | part c g' => cases c with
      | dir => rfl
      | zip => rw [hfi] at hd; cases hd
  induction body with
  | nil =>
    intro fs k hd hk
    obtain ⟨k', rfl⟩ : ∃ k', k = k' + 1 := ⟨k - 1, by simp only [List.length_nil] at hk; omega⟩
    simp only [List.map_nil, List.nil_append, run_succ_cons, hstep fs true hd, run_nil]
    rfl
  | cons o body ih =>
    intro fs k hd hk
    simp only [List.length_cons] at hk
    obtain ⟨k', rfl⟩ : ∃ k', k = k' + 1 := ⟨k - 1, by omega⟩
    cases o with
    | none =>
      simp only [List.map_cons, List.cons_append, dirOp, run_succ_cons, hstep fs false hd]
      rw [ih _ k' (by rw [set_same]; rfl) (by omega), set_set]
    | some t =>
      simp only [List.map_cons, List.cons_append, dirOp, run_succ_cons, step]
      exact ih fs k' hd (by omega)

theorem run_tmps : ∀ (a : List Prim), (∀ p ∈ a, ∃ t, p = .tmp t) →
    ∀ (rest : List Prim) (fs : FS) (k : Nat), a.length ≤ k →
    run (a ++ rest) k fs = run rest (k - a.length) fs := by
  intro a
  induction a with
  | nil => intro _ rest fs k _; simp
  | cons p a ih =>
    intro ha rest fs k hk
    simp only [List.length_cons] at hk
    obtain ⟨k', rfl⟩ : ∃ k', k = k' + 1 := ⟨k - 1, by omega⟩
    obtain ⟨t, rfl⟩ := ha p List.mem_cons_self
    simp only [List.cons_append, run_succ_cons, step, List.length_cons]
    rw [ih (fun q hq => ha q (List.mem_cons_of_mem _ hq)) rest fs k' (by omega)]
    congr 1
    omega

theorem writer_complete (sv : Save) (fs : FS) (k : Nat) (h0 : fs 0 = .absent)
    (hk : (writer sv).length ≤ k) :
    run (writer sv) k fs = (fs.set 0 (.good sv.kind sv.g), true) := by
  unfold writer at hk ⊢
  cases hkind : sv.kind with
  | dir =>
    rw [hkind] at hk
    simp only [dirWriter, List.length_cons, List.length_append, List.length_map,
      List.length_nil] at hk ⊢
    obtain ⟨k', rfl⟩ : ∃ k', k = k' + 1 := ⟨k - 1, by omega⟩
    have hstep : step (.mkroot sv.g) fs = some (fs.set 0 (.part .dir sv.g)) := by
      simp only [step, h0]
    rw [run_succ_cons, hstep]
    simp only []
    rw [run_writes sv.g sv.body _ k' (by rw [set_same]; rfl) (by omega), set_set]
  | zip =>
    rw [hkind] at hk
    simp only [zipWriter, List.length_append, List.length_replicate, List.length_cons,
      List.length_nil, List.length_map] at hk ⊢
    rw [List.append_assoc, run_tmps (sv.pre.map .tmp) (by simp) _ fs k (by simp; omega)]
    simp only [List.length_map]
    obtain ⟨k', hk'⟩ : ∃ k', k - sv.pre.length = k' + 1 := ⟨k - sv.pre.length - 1, by omega⟩
    rw [hk']
    simp only [List.singleton_append, run_succ_cons]
    have hstep : step (.move sv.g) fs = some (fs.set 0 (.good .zip sv.g)) := by
      simp only [step, h0]
    rw [hstep]
    simp only []
    have := run_tmps (List.replicate sv.n2 (.tmp .guarded))
      (by intro p hp; exact ⟨.guarded, (List.mem_replicate.mp hp).2⟩) []
      (fs.set 0 (.good .zip sv.g)) k' (by simp; omega)
    simp only [List.append_nil, run_nil] at this
    exact this

/-- the whole plan, uninterrupted: with `m` the first free slot (or `max`) -/
theorem run_plan_complete (maxB : Nat) (sv : Save) (fs : FS) (m k : Nat)
    (h3 : ∀ j, j < m → fs j ≠ .absent) (h2 : m ≤ maxB) (h4 : m < maxB → fs m = .absent)
    (hk : (plan maxB sv fs).length ≤ k) :
    run (plan maxB sv fs) k fs = ((shift fs 0 m).set 0 (.good sv.kind sv.g), true) := by
  have hlen : (plan maxB sv fs).length = (rotation maxB sv.nrm fs).length + (writer sv).length := by
    simp [plan]
  have hrot := rot_complete fs sv.nrm maxB 0 m k (fun j _ hj => h3 j hj) (Nat.zero_le _) (by omega)
    (fun h => h4 (by omega)) (by unfold rotation at hlen; omega)
  have h0 : shift fs 0 m 0 = .absent := by simp [shift]
  have hw := writer_complete sv (shift fs 0 m) (k - (rotation maxB sv.nrm fs).length) h0 (by omega)
  unfold plan
  rw [run_append]
  unfold rotation at hw ⊢
  rw [hrot]
  simp only [if_true]
  rw [hw]

theorem faultKind_ge (pol : Policy) (pl : List Prim) (k : Nat) (h : pl.length ≤ k) :
    faultKind pol pl k = .raises := by
  unfold faultKind
  rw [List.getElem?_eq_none h]

theorem save_at_length (maxB : Nat) (sv : Save) (fs : FS) :
    save maxB sv (plan maxB sv fs).length fs =
      run (plan maxB sv fs) (plan maxB sv fs).length fs := by
  unfold save
  rw [faultKind_ge _ _ _ (Nat.le_refl _)]

/-! ### uninterrupted saves keep the previous generations in order -/

/-- an uninterrupted save: the fault index is the length of the plan -/
def saveOk (maxB : Nat) (sv : Save) (fs : FS) : FS × Bool :=
  save maxB sv (plan maxB sv fs).length fs

def runOk (maxB : Nat) (fs : FS) : List Save → FS
  | [] => fs
  | sv :: rest => runOk maxB (saveOk maxB sv fs).1 rest

/-- the complete copy written by the `j`-th save of a list (absent beyond its end) -/
def copyOf (l : List Save) (j : Nat) : Slot :=
  match l[j]? with
  | some sv => Slot.good sv.kind sv.g
  | none => Slot.absent

theorem copyOf_cons_succ (sv : Save) (l : List Save) (j : Nat) :
    copyOf (sv :: l) (j + 1) = copyOf l j := by simp [copyOf]

theorem copyOf_none (l : List Save) (j : Nat) (h : l.length ≤ j) : copyOf l j = .absent := by
  simp only [copyOf]; rw [List.getElem?_eq_none h]

/-- `l` lists the saves newest first: slot `j ≤ max` holds the `j`-th newest, nothing else exists -/
def Holds (maxB : Nat) (l : List Save) (fs : FS) : Prop :=
  ∀ j, fs j = if j ≤ maxB then copyOf l j else Slot.absent

theorem saveOk_holds (maxB : Nat) (sv : Save) (l : List Save) (fs : FS) (h : Holds maxB l fs) :
    Holds maxB (sv :: l) (saveOk maxB sv fs).1 ∧ (saveOk maxB sv fs).2 = true := by
  -- the first free slot
  have hex : ∀ j, fs j ≠ .absent ↔ (j ≤ maxB ∧ j < l.length) := by
    intro j
    rw [h j]
    by_cases hj : j ≤ maxB
    · rw [if_pos hj]
      by_cases hl : j < l.length
      · simp only [copyOf]; rw [List.getElem?_eq_getElem hl]; simp [hj, hl]
      · simp only [copyOf]; rw [List.getElem?_eq_none (by omega)]; simp [hl]
    · rw [if_neg hj]; simp [hj]
  let m := min l.length maxB
  have hrun := run_plan_complete maxB sv fs m (plan maxB sv fs).length
    (fun j hj => (hex j).mpr ⟨by omega, by omega⟩) (by omega)
    (fun hm => by
      have : ¬ (fs m ≠ .absent) := fun hc => by have := (hex m).mp hc; omega
      exact Classical.not_not.mp this)
    (Nat.le_refl _)
  unfold saveOk
  rw [save_at_length, hrun]
  refine ⟨?_, rfl⟩
  intro j
  show ((shift fs 0 m).set 0 (Slot.good sv.kind sv.g)) j = _
  by_cases hj0 : j = 0
  · subst hj0; simp [copyOf]
  · rw [set_other _ _ hj0]
    simp only [shift, if_neg hj0]
    obtain ⟨j', rfl⟩ : ∃ j', j = j' + 1 := ⟨j - 1, by omega⟩
    rw [copyOf_cons_succ]
    simp only [Nat.add_sub_cancel]
    by_cases hjm : 0 < j' + 1 ∧ j' + 1 ≤ m
    · rw [if_pos hjm, h j', if_pos (by omega), if_pos (by omega)]
    · rw [if_neg hjm, h (j' + 1)]
      by_cases hjB : j' + 1 ≤ maxB
      · rw [if_pos hjB, if_pos hjB]
        have : l.length ≤ j' := by omega
        rw [copyOf_none l (j' + 1) (by omega), copyOf_none l j' this]
      · rw [if_neg hjB, if_neg hjB]

theorem runOk_holds (maxB : Nat) : ∀ (svs l : List Save) (fs : FS), Holds maxB l fs →
    Holds maxB (svs.reverse ++ l) (runOk maxB fs svs) := by
  intro svs
  induction svs with
  | nil => intro l fs h; simpa [runOk] using h
  | cons sv rest ih =>
    intro l fs h
    have := ih (sv :: l) _ (saveOk_holds maxB sv l fs h).1
    simpa [runOk, List.reverse_cons, List.append_assoc] using this

/-! ### a save that reported success, from any state -/

theorem exists_first_gap (fs : FS) : ∀ (f n : Nat), ∃ m, n ≤ m ∧ m ≤ n + f ∧
    (∀ j, n ≤ j → j < m → fs j ≠ .absent) ∧ (m < n + f → fs m = .absent) := by
  intro f
  induction f with
  | zero => intro n; exact ⟨n, Nat.le_refl _, Nat.le_refl _, fun j h1 h2 => by omega, fun h => by omega⟩
  | succ f ih =>
    intro n
    by_cases hn : fs n = .absent
    · exact ⟨n, Nat.le_refl _, by omega, fun j h1 h2 => by omega, fun _ => hn⟩
    · obtain ⟨m, h1, h2, h3, h4⟩ := ih (n + 1)
      refine ⟨m, by omega, by omega, ?_, fun h => h4 (by omega)⟩
      intro j hj1 hj2
      by_cases hjn : j = n
      · subst hjn; exact hn
      · exact h3 j (by omega) hj2

/-- a save that ran to its end (and did not truncate its archive on the way): the new copy is
at the path, every generation up to the first free slot has moved up by one, nothing else
changed -/
theorem save_done (maxB : Nat) (sv : Save) (k : Nat) (fs : FS)
    (hnt : faultKind sv.pol (plan maxB sv fs) k ≠ .truncates)
    (hdone : (save maxB sv k fs).2 = true) :
    ∃ m, m ≤ maxB ∧ (∀ j, j < m → fs j ≠ .absent) ∧ (m < maxB → fs m = .absent) ∧
      (save maxB sv k fs).1 = (shift fs 0 m).set 0 (.good sv.kind sv.g) := by
  obtain ⟨m, _, h2, h3, h4⟩ := exists_first_gap fs maxB 0
  refine ⟨m, by omega, fun j hj => h3 j (Nat.zero_le _) hj, fun h => h4 (by omega), ?_⟩
  have hcomp := fun k' hk' => run_plan_complete maxB sv fs m k'
    (fun j hj => h3 j (Nat.zero_le _) hj) (by omega) (fun h => h4 (by omega)) hk'
  unfold save at hdone ⊢
  split at hdone
  · have hk : (plan maxB sv fs).length ≤ k := by
      rcases Nat.lt_or_ge k (plan maxB sv fs).length with hlt | hge
      · have := run_short (plan maxB sv fs) k fs hlt
        rw [this] at hdone; cases hdone
      · exact hge
    rw [hcomp k hk]
  · rw [hcomp _ (Nat.le_refl _)]
  · rename_i hfk; exact absurd hfk hnt

end MxModel.Backup
