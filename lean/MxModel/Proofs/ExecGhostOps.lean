import MxModel.Proofs.ExecGhost
import MxModel.Proofs.ExecCertRunOps
/-!
# The ghost flag over histories of the thirteen-operation language

`C02.step` / `C02.run` commute with raising the flag: the definitions, every result and every state
reached by a history are the same whether or not an earlier evaluation hit the depth limit.
-/
namespace MxModel.C02
open MxModel.Exec

theorem step_orHit (env : Env) (s : St) (b : Bool) (op : Op) :
    step (env, s.orHit b) op = ((step (env, s) op).1, (step (env, s) op).2.orHit b) := by
  cases op with
  | eval n =>
    simp only [step]
    split
    · rw [evalTop_orHit]
    · rfl
  | setValue n v =>
    simp only [step]
    split
    · rw [setValue_orHit]
    · rfl
  | clearAt n => simp only [step, clearValueAt_orHit]
  | clear c => simp only [step, clearAllValues_orHit]
  | clearAll c => simp only [step, clearAllValues_orHit]
  | setRef r v => simp only [step, setRef_orHit]
  | delRef r =>
    simp only [step]
    split
    · simp only [delRef_orHit]
    · rfl
  | setFormula c f =>
    simp only [step]
    split <;> rfl
  | setCached c b' =>
    simp only [step]
    split <;> rfl
  | delCell c =>
    simp only [step]
    split
    · simp only [delCell_orHit]
    · rfl
  | newCell c f b' an =>
    simp only [step]
    split
    · rfl
    · simp only [newCell_orHit]
  | maxdepth k => rfl
  | admin a => rfl

/-- **the flag is a ghost for histories** -/
theorem run_orHit (ops : List Op) : ∀ (env : Env) (s : St) (b : Bool),
    run (env, s.orHit b) ops = ((run (env, s) ops).1, (run (env, s) ops).2.orHit b) := by
  induction ops with
  | nil => intro env s b; rfl
  | cons op rest ih =>
    intro env s b
    simp only [run, List.foldl]
    rw [step_orHit]
    exact ih _ _ b

end MxModel.C02
