import MxModel.Proofs.ExecCert
import MxModel.Exec.Expr
import MxModel.Proofs.ExprRanked
/-!
# A syntactic class of programs meeting the hypotheses of the certificate theorems

Formulas of the concrete grammar without `try` are `NoCatch`; formulas passed through
`scopeExpr` (which is what the driver does with the space of each cells and reference) read by
name only what is visible – so environments built the way `Driver.Exec.World.env` builds them
from `try`-free bodies satisfy `NoCatchEnv` and `Scoped`.
-/
namespace MxModel.Exec

mutual
def noTry : Expr → Bool
  | .lit _ => true
  | .none => true
  | .param _ => true
  | .add a b => noTry a && noTry b
  | .sub a b => noTry a && noTry b
  | .mul a b => noTry a && noTry b
  | .lt a b => noTry a && noTry b
  | .ite c a b => noTry c && noTry a && noTry b
  | .call _ args => noTryList args
  | .readN _ => true
  | .readA _ => true
  | .raise _ => true
  | .try_ _ _ _ => false
  | .tryRe _ _ _ => false
  | .tryFin _ _ => false
  | .callK _ args _ _ _ => noTryList args
def noTryList : List Expr → Bool
  | [] => true
  | e :: es => noTry e && noTryList es
end

/-! a handler that only raises: `try: … except X: raise Y` turns no failure into a value -/
def isRaise : Expr → Bool
  | .raise _ => true
  | _ => false

theorem isRaise_iff (b : Expr) : isRaise b = true ↔ ∃ k, b = .raise k := by
  cases b <;> simp [isRaise]

/-! no handler returns a value (`try` only with a handler that raises): the class `NoCatch` as
syntax; contains the `try`-free bodies and what `deadExpr` makes of them -/
mutual
def noCatch : Expr → Bool
  | .lit _ => true
  | .none => true
  | .param _ => true
  | .add a b => noCatch a && noCatch b
  | .sub a b => noCatch a && noCatch b
  | .mul a b => noCatch a && noCatch b
  | .lt a b => noCatch a && noCatch b
  | .ite c a b => noCatch c && noCatch a && noCatch b
  | .call _ args => noCatchList args
  | .readN _ => true
  | .readA _ => true
  | .raise _ => true
  | .try_ a _ b => noCatch a && isRaise b
  | .tryRe _ _ _ => false
  | .tryFin _ _ => false
  | .callK _ args _ _ _ => noCatchList args
def noCatchList : List Expr → Bool
  | [] => true
  | e :: es => noCatch e && noCatchList es
end

mutual
theorem noCatch_of_noTry : ∀ e : Expr, noTry e = true → noCatch e = true
  | .lit _ => by simp [noCatch]
  | .none => by simp [noCatch]
  | .param _ => by simp [noCatch]
  | .add a b => by
    simp only [noTry, noCatch, Bool.and_eq_true]
    exact fun h => ⟨noCatch_of_noTry a h.1, noCatch_of_noTry b h.2⟩
  | .sub a b => by
    simp only [noTry, noCatch, Bool.and_eq_true]
    exact fun h => ⟨noCatch_of_noTry a h.1, noCatch_of_noTry b h.2⟩
  | .mul a b => by
    simp only [noTry, noCatch, Bool.and_eq_true]
    exact fun h => ⟨noCatch_of_noTry a h.1, noCatch_of_noTry b h.2⟩
  | .lt a b => by
    simp only [noTry, noCatch, Bool.and_eq_true]
    exact fun h => ⟨noCatch_of_noTry a h.1, noCatch_of_noTry b h.2⟩
  | .ite c a b => by
    simp only [noTry, noCatch, Bool.and_eq_true]
    exact fun h => ⟨⟨noCatch_of_noTry c h.1.1, noCatch_of_noTry a h.1.2⟩, noCatch_of_noTry b h.2⟩
  | .call _ args => by
    simp only [noTry, noCatch]
    exact noCatchList_of_noTry args
  | .readN _ => by simp [noCatch]
  | .readA _ => by simp [noCatch]
  | .raise _ => by simp [noCatch]
  | .try_ _ _ _ => by simp [noTry]
  | .tryRe _ _ _ => by simp [noTry]
  | .tryFin _ _ => by simp [noTry]
  | .callK _ args _ _ _ => by
    simp only [noTry, noCatch]
    exact noCatchList_of_noTry args
theorem noCatchList_of_noTry : ∀ es : List Expr, noTryList es = true → noCatchList es = true
  | [] => by simp [noCatchList]
  | e :: es => by
    simp only [noTryList, noCatchList, Bool.and_eq_true]
    exact fun h => ⟨noCatch_of_noTry e h.1, noCatchList_of_noTry es h.2⟩
end

mutual
def namesIn (vis : RefId → Bool) : Expr → Bool
  | .lit _ => true
  | .none => true
  | .param _ => true
  | .add a b => namesIn vis a && namesIn vis b
  | .sub a b => namesIn vis a && namesIn vis b
  | .mul a b => namesIn vis a && namesIn vis b
  | .lt a b => namesIn vis a && namesIn vis b
  | .ite c a b => namesIn vis c && namesIn vis a && namesIn vis b
  | .call _ args => namesInList vis args
  | .readN r => vis r
  | .readA _ => true
  | .raise _ => true
  | .try_ a _ b => namesIn vis a && namesIn vis b
  | .tryRe a _ b => namesIn vis a && namesIn vis b
  | .tryFin a b => namesIn vis a && namesIn vis b
  | .callK _ args _ _ _ => namesInList vis args
def namesInList (vis : RefId → Bool) : List Expr → Bool
  | [] => true
  | e :: es => namesIn vis e && namesInList vis es
end

/-- both hypotheses at once, for a continuation pair -/
def PW (R : RefId → Prop) (p : Prog) : Prop := NoCatch p ∧ NameReadsIn R p
def HW (R : RefId → Prop) (h : Bool → Err → Prog) : Prop := ∀ x e, PW R (h x e) ∧ Fails (h x e)

theorem arith_pw (R : RefId → Prop) (op : Int → Int → Int) (a b : Val) (k : Val → Prog)
    (h : Bool → Err → Prog) (hk : ∀ v, PW R (k v)) (hh : HW R h) : PW R (arith op a b k h) := by
  unfold arith; split
  · exact hk _
  · exact (hh _ _).1

mutual
theorem compile_pw (R : RefId → Prop) (vis : RefId → Bool) (hvis : ∀ r, vis r = true → R r)
    (ar : CellId → Option Nat) (params : List Val) :
    ∀ (e : Expr) (k : Val → Prog) (h : Bool → Err → Prog), noCatch e = true → namesIn vis e = true →
      (∀ v, PW R (k v)) → HW R h → PW R (compile ar params e k h)
  | .lit i, k, h, _, _, hk, _ => by simp only [compile]; exact hk _
  | .none, k, h, _, _, hk, _ => by simp only [compile]; exact hk _
  | .param i, k, h, _, _, hk, hh => by
    simp only [compile]; split
    · exact hk _
    · exact (hh _ _).1
  | .add a b, k, h, ht, hn, hk, hh => by
    simp only [noCatch, namesIn, Bool.and_eq_true] at ht hn
    simp only [compile]
    exact compile_pw R vis hvis ar params a _ h ht.1 hn.1 (fun x => compile_pw R vis hvis ar params b _ h ht.2 hn.2
      (fun y => arith_pw R _ x y k h hk hh) hh) hh
  | .sub a b, k, h, ht, hn, hk, hh => by
    simp only [noCatch, namesIn, Bool.and_eq_true] at ht hn
    simp only [compile]
    exact compile_pw R vis hvis ar params a _ h ht.1 hn.1 (fun x => compile_pw R vis hvis ar params b _ h ht.2 hn.2
      (fun y => arith_pw R _ x y k h hk hh) hh) hh
  | .mul a b, k, h, ht, hn, hk, hh => by
    simp only [noCatch, namesIn, Bool.and_eq_true] at ht hn
    simp only [compile]
    exact compile_pw R vis hvis ar params a _ h ht.1 hn.1 (fun x => compile_pw R vis hvis ar params b _ h ht.2 hn.2
      (fun y => arith_pw R _ x y k h hk hh) hh) hh
  | .lt a b, k, h, ht, hn, hk, hh => by
    simp only [noCatch, namesIn, Bool.and_eq_true] at ht hn
    simp only [compile]
    exact compile_pw R vis hvis ar params a _ h ht.1 hn.1 (fun x => compile_pw R vis hvis ar params b _ h ht.2 hn.2
      (fun y => arith_pw R _ x y k h hk hh) hh) hh
  | .ite c a b, k, h, ht, hn, hk, hh => by
    simp only [noCatch, namesIn, Bool.and_eq_true] at ht hn
    simp only [compile]
    refine compile_pw R vis hvis ar params c _ h ht.1.1 hn.1.1 (fun x => ?_) hh
    split
    · exact compile_pw R vis hvis ar params a k h ht.1.2 hn.1.2 hk hh
    · exact compile_pw R vis hvis ar params b k h ht.2 hn.2 hk hh
  | .call c args, k, h, ht, hn, hk, hh => by
    simp only [noCatch, namesIn] at ht hn
    simp only [compile]
    split
    · exact (hh _ _).1
    · refine compileArgs_pw R vis hvis ar params args _ h ht hn (fun vs => ?_) hh
      split
      · refine ⟨?_, ?_⟩
        · simp only [NoCatch]
          refine ⟨fun e => (hh false e).2, fun r => ?_⟩
          cases r with
          | ok v => exact (hk v).1
          | err e => exact (hh _ _).1.1
        · simp only [NameReadsIn]
          intro r
          cases r with
          | ok v => exact (hk v).2
          | err e => exact (hh _ _).1.2
      · exact (hh _ _).1
  | .readN r, k, h, _, hn, hk, hh => by
    simp only [namesIn] at hn
    simp only [compile]
    refine ⟨?_, ?_⟩
    · simp only [NoCatch]
      refine ⟨(fun h' => by cases h'), fun o => ?_⟩
      cases o with
      | some v => exact (hk v).1
      | none => exact (hh _ _).1.1
    · simp only [NameReadsIn]
      refine ⟨fun _ => hvis r hn, fun o => ?_⟩
      cases o with
      | some v => exact (hk v).2
      | none => exact (hh _ _).1.2
  | .readA r, k, h, _, _, hk, hh => by
    simp only [compile]
    refine ⟨?_, ?_⟩
    · simp only [NoCatch]
      refine ⟨fun _ => (hh _ _).2, fun o => ?_⟩
      cases o with
      | some v => exact (hk v).1
      | none => exact (hh _ _).1.1
    · simp only [NameReadsIn]
      refine ⟨(fun h' => by cases h'), fun o => ?_⟩
      cases o with
      | some v => exact (hk v).2
      | none => exact (hh _ _).1.2
  | .raise e, k, h, _, _, _, hh => by simp only [compile]; exact (hh _ _).1
  | .try_ a c b, k, h, ht, hn, hk, hh => by
    simp only [noCatch, namesIn, Bool.and_eq_true] at ht hn
    obtain ⟨k', rfl⟩ := (isRaise_iff b).mp ht.2
    simp only [compile]
    refine compile_pw R vis hvis ar params a k _ ht.1 hn.1 hk ?_
    intro x e
    show PW R (if c.catches e = true then h true (.user k') else h x e) ∧
      Fails (if c.catches e = true then h true (.user k') else h x e)
    split
    · exact hh _ _
    · exact hh _ _
  | .tryRe a c b, k, h, ht, _, _, _ => by simp [noCatch] at ht
  | .tryFin a b, k, h, ht, _, _, _ => by simp [noCatch] at ht
  | .callK c args npos kws dflt, k, h, ht, hn, hk, hh => by
    simp only [noCatch, namesIn] at ht hn
    simp only [compile]
    split
    · exact (hh _ _).1
    · refine compileArgs_pw R vis hvis ar params args _ h ht hn (fun vs => ?_) hh
      split
      · refine ⟨?_, ?_⟩
        · simp only [NoCatch]
          refine ⟨fun e => (hh false e).2, fun r => ?_⟩
          cases r with
          | ok v => exact (hk v).1
          | err e => exact (hh _ _).1.1
        · simp only [NameReadsIn]
          intro r
          cases r with
          | ok v => exact (hk v).2
          | err e => exact (hh _ _).1.2
      · exact (hh _ _).1
theorem compileArgs_pw (R : RefId → Prop) (vis : RefId → Bool) (hvis : ∀ r, vis r = true → R r)
    (ar : CellId → Option Nat) (params : List Val) :
    ∀ (es : List Expr) (k : List Val → Prog) (h : Bool → Err → Prog), noCatchList es = true →
      namesInList vis es = true → (∀ vs, PW R (k vs)) → HW R h → PW R (compileArgs ar params es k h)
  | [], k, h, _, _, hk, _ => by simp only [compileArgs]; exact hk _
  | e :: es, k, h, ht, hn, hk, hh => by
    simp only [noCatchList, namesInList, Bool.and_eq_true] at ht hn
    simp only [compileArgs]
    exact compile_pw R vis hvis ar params e _ h ht.1 hn.1
      (fun v => compileArgs_pw R vis hvis ar params es _ h ht.2 hn.2 (fun vs => hk _) hh) hh
end

mutual
theorem scope_facts (vis : RefId → Bool) (i : CellId) : ∀ (e : Expr),
    namesIn vis (scopeExpr vis e) = true ∧ noTry (scopeExpr vis e) = noTry e ∧
    callsBelowId i (scopeExpr vis e) = callsBelowId i e
  | .lit _ => by simp [scopeExpr, namesIn, noTry, callsBelowId]
  | .none => by simp [scopeExpr, namesIn, noTry, callsBelowId]
  | .param _ => by simp [scopeExpr, namesIn, noTry, callsBelowId]
  | .add a b => by
    have ha := scope_facts vis i a; have hb := scope_facts vis i b
    simp [scopeExpr, namesIn, noTry, callsBelowId, ha, hb]
  | .sub a b => by
    have ha := scope_facts vis i a; have hb := scope_facts vis i b
    simp [scopeExpr, namesIn, noTry, callsBelowId, ha, hb]
  | .mul a b => by
    have ha := scope_facts vis i a; have hb := scope_facts vis i b
    simp [scopeExpr, namesIn, noTry, callsBelowId, ha, hb]
  | .lt a b => by
    have ha := scope_facts vis i a; have hb := scope_facts vis i b
    simp [scopeExpr, namesIn, noTry, callsBelowId, ha, hb]
  | .ite c a b => by
    have hc := scope_facts vis i c; have ha := scope_facts vis i a; have hb := scope_facts vis i b
    simp [scopeExpr, namesIn, noTry, callsBelowId, ha, hb, hc]
  | .call c args => by
    have h := scopes_facts vis i args
    simp [scopeExpr, namesIn, noTry, callsBelowId, h]
  | .readN r => by
    simp only [scopeExpr]
    split
    · rename_i h; simp [namesIn, noTry, callsBelowId, h]
    · simp [namesIn, noTry, callsBelowId]
  | .readA _ => by simp [scopeExpr, namesIn, noTry, callsBelowId]
  | .raise _ => by simp [scopeExpr, namesIn, noTry, callsBelowId]
  | .try_ a c b => by
    have ha := scope_facts vis i a; have hb := scope_facts vis i b
    simp [scopeExpr, namesIn, noTry, callsBelowId, ha, hb]
  | .tryRe a c b => by
    have ha := scope_facts vis i a; have hb := scope_facts vis i b
    simp [scopeExpr, namesIn, noTry, callsBelowId, ha, hb]
  | .tryFin a b => by
    have ha := scope_facts vis i a; have hb := scope_facts vis i b
    simp [scopeExpr, namesIn, noTry, callsBelowId, ha, hb]
  | .callK c args _ _ _ => by
    have h := scopes_facts vis i args
    simp [scopeExpr, namesIn, noTry, callsBelowId, h]
theorem scopes_facts (vis : RefId → Bool) (i : CellId) : ∀ (es : List Expr),
    namesInList vis (scopeExprs vis es) = true ∧ noTryList (scopeExprs vis es) = noTryList es ∧
    callsBelowIdList i (scopeExprs vis es) = callsBelowIdList i es
  | [] => by simp [scopeExprs, namesInList, noTryList, callsBelowIdList]
  | e :: es => by
    have h1 := scope_facts vis i e; have h2 := scopes_facts vis i es
    simp [scopeExprs, namesInList, noTryList, callsBelowIdList, h1, h2]
end

/-! `scopeExpr` keeps the class `noCatch` -/
mutual
theorem scope_noCatch (vis : RefId → Bool) : ∀ (e : Expr), noCatch e = true → noCatch (scopeExpr vis e) = true
  | .lit _ => by simp [scopeExpr, noCatch]
  | .none => by simp [scopeExpr, noCatch]
  | .param _ => by simp [scopeExpr, noCatch]
  | .add a b => by
    simp only [scopeExpr, noCatch, Bool.and_eq_true]
    exact fun h => ⟨scope_noCatch vis a h.1, scope_noCatch vis b h.2⟩
  | .sub a b => by
    simp only [scopeExpr, noCatch, Bool.and_eq_true]
    exact fun h => ⟨scope_noCatch vis a h.1, scope_noCatch vis b h.2⟩
  | .mul a b => by
    simp only [scopeExpr, noCatch, Bool.and_eq_true]
    exact fun h => ⟨scope_noCatch vis a h.1, scope_noCatch vis b h.2⟩
  | .lt a b => by
    simp only [scopeExpr, noCatch, Bool.and_eq_true]
    exact fun h => ⟨scope_noCatch vis a h.1, scope_noCatch vis b h.2⟩
  | .ite c a b => by
    simp only [scopeExpr, noCatch, Bool.and_eq_true]
    exact fun h => ⟨⟨scope_noCatch vis c h.1.1, scope_noCatch vis a h.1.2⟩, scope_noCatch vis b h.2⟩
  | .call _ args => by
    simp only [scopeExpr, noCatch]
    exact scopes_noCatch vis args
  | .readN r => by
    simp only [scopeExpr]
    split <;> simp [noCatch]
  | .readA _ => by simp [scopeExpr, noCatch]
  | .raise _ => by simp [scopeExpr, noCatch]
  | .try_ a c b => by
    simp only [scopeExpr, noCatch, Bool.and_eq_true]
    intro h
    obtain ⟨k, rfl⟩ := (isRaise_iff b).mp h.2
    exact ⟨scope_noCatch vis a h.1, by simp [scopeExpr, isRaise]⟩
  | .tryRe _ _ _ => by simp [noCatch]
  | .tryFin _ _ => by simp [noCatch]
  | .callK _ args _ _ _ => by
    simp only [scopeExpr, noCatch]
    exact scopes_noCatch vis args
theorem scopes_noCatch (vis : RefId → Bool) : ∀ (es : List Expr),
    noCatchList es = true → noCatchList (scopeExprs vis es) = true
  | [] => by simp [scopeExprs, noCatchList]
  | e :: es => by
    simp only [scopeExprs, noCatchList, Bool.and_eq_true]
    exact fun h => ⟨scope_noCatch vis e h.1, scopes_noCatch vis es h.2⟩
end

/-! `deadExpr` keeps the classes: it introduces no read, no handler that returns, no call of a
higher cells -/
mutual
theorem dead_facts (dead : CellId → Option Bool) (vis : RefId → Bool) (i : CellId) : ∀ (e : Expr),
    (namesIn vis e = true → namesIn vis (deadExpr dead e) = true) ∧
    (noCatch e = true → noCatch (deadExpr dead e) = true) ∧
    (callsBelowId i e = true → callsBelowId i (deadExpr dead e) = true)
  | .lit _ => by simp [deadExpr]
  | .none => by simp [deadExpr]
  | .param _ => by simp [deadExpr]
  | .add a b => by
    have ha := dead_facts dead vis i a; have hb := dead_facts dead vis i b
    simp only [deadExpr, namesIn, noCatch, callsBelowId, Bool.and_eq_true]
    exact ⟨fun h => ⟨ha.1 h.1, hb.1 h.2⟩, fun h => ⟨ha.2.1 h.1, hb.2.1 h.2⟩, fun h => ⟨ha.2.2 h.1, hb.2.2 h.2⟩⟩
  | .sub a b => by
    have ha := dead_facts dead vis i a; have hb := dead_facts dead vis i b
    simp only [deadExpr, namesIn, noCatch, callsBelowId, Bool.and_eq_true]
    exact ⟨fun h => ⟨ha.1 h.1, hb.1 h.2⟩, fun h => ⟨ha.2.1 h.1, hb.2.1 h.2⟩, fun h => ⟨ha.2.2 h.1, hb.2.2 h.2⟩⟩
  | .mul a b => by
    have ha := dead_facts dead vis i a; have hb := dead_facts dead vis i b
    simp only [deadExpr, namesIn, noCatch, callsBelowId, Bool.and_eq_true]
    exact ⟨fun h => ⟨ha.1 h.1, hb.1 h.2⟩, fun h => ⟨ha.2.1 h.1, hb.2.1 h.2⟩, fun h => ⟨ha.2.2 h.1, hb.2.2 h.2⟩⟩
  | .lt a b => by
    have ha := dead_facts dead vis i a; have hb := dead_facts dead vis i b
    simp only [deadExpr, namesIn, noCatch, callsBelowId, Bool.and_eq_true]
    exact ⟨fun h => ⟨ha.1 h.1, hb.1 h.2⟩, fun h => ⟨ha.2.1 h.1, hb.2.1 h.2⟩, fun h => ⟨ha.2.2 h.1, hb.2.2 h.2⟩⟩
  | .ite c a b => by
    have hc := dead_facts dead vis i c; have ha := dead_facts dead vis i a; have hb := dead_facts dead vis i b
    simp only [deadExpr, namesIn, noCatch, callsBelowId, Bool.and_eq_true]
    exact ⟨fun h => ⟨⟨hc.1 h.1.1, ha.1 h.1.2⟩, hb.1 h.2⟩, fun h => ⟨⟨hc.2.1 h.1.1, ha.2.1 h.1.2⟩, hb.2.1 h.2⟩,
      fun h => ⟨⟨hc.2.2 h.1.1, ha.2.2 h.1.2⟩, hb.2.2 h.2⟩⟩
  | .call c args => by
    have h := deads_facts dead vis i args
    simp only [deadExpr]
    split
    · simp only [namesIn, noCatch, callsBelowId, Bool.and_eq_true, decide_eq_true_eq]
      exact ⟨h.1, h.2.1, fun hh => ⟨hh.1, h.2.2 hh.2⟩⟩
    · simp only [namesIn, noCatch, callsBelowId, namesInList, noCatchList, callsBelowIdList, Bool.and_eq_true,
        decide_eq_true_eq]
      exact ⟨fun _ => trivial, fun _ => trivial, fun hh => ⟨hh.1, trivial⟩⟩
    · simp only [namesIn, noCatch, callsBelowId, namesInList, noCatchList, callsBelowIdList, isRaise,
        Bool.and_eq_true, decide_eq_true_eq]
      exact ⟨fun _ => ⟨trivial, trivial⟩, fun _ => ⟨trivial, trivial⟩, fun hh => ⟨⟨hh.1, trivial⟩, trivial⟩⟩
  | .readN _ => by simp [deadExpr]
  | .readA _ => by simp [deadExpr]
  | .raise _ => by simp [deadExpr]
  | .try_ a c b => by
    have ha := dead_facts dead vis i a; have hb := dead_facts dead vis i b
    simp only [deadExpr, namesIn, noCatch, callsBelowId, Bool.and_eq_true]
    refine ⟨fun h => ⟨ha.1 h.1, hb.1 h.2⟩, fun h => ⟨ha.2.1 h.1, ?_⟩, fun h => ⟨ha.2.2 h.1, hb.2.2 h.2⟩⟩
    obtain ⟨k, rfl⟩ := (isRaise_iff b).mp h.2
    simp [deadExpr, isRaise]
  | .tryRe a c b => by
    have ha := dead_facts dead vis i a; have hb := dead_facts dead vis i b
    simp only [deadExpr, namesIn, noCatch, callsBelowId, Bool.and_eq_true]
    exact ⟨fun h => ⟨ha.1 h.1, hb.1 h.2⟩, fun h => h, fun h => ⟨ha.2.2 h.1, hb.2.2 h.2⟩⟩
  | .tryFin a b => by
    have ha := dead_facts dead vis i a; have hb := dead_facts dead vis i b
    simp only [deadExpr, namesIn, noCatch, callsBelowId, Bool.and_eq_true]
    exact ⟨fun h => ⟨ha.1 h.1, hb.1 h.2⟩, fun h => h, fun h => ⟨ha.2.2 h.1, hb.2.2 h.2⟩⟩
  | .callK c args _ _ _ => by
    have h := deads_facts dead vis i args
    simp only [deadExpr]
    split
    · simp only [namesIn, noCatch, callsBelowId, Bool.and_eq_true, decide_eq_true_eq]
      exact ⟨h.1, h.2.1, fun hh => ⟨hh.1, h.2.2 hh.2⟩⟩
    · simp only [namesIn, noCatch, callsBelowId, namesInList, noCatchList, callsBelowIdList, Bool.and_eq_true,
        decide_eq_true_eq]
      exact ⟨fun _ => trivial, fun _ => trivial, fun hh => ⟨hh.1, trivial⟩⟩
    · simp only [namesIn, noCatch, callsBelowId, namesInList, noCatchList, callsBelowIdList, isRaise,
        Bool.and_eq_true, decide_eq_true_eq]
      exact ⟨fun _ => ⟨trivial, trivial⟩, fun _ => ⟨trivial, trivial⟩, fun hh => ⟨⟨hh.1, trivial⟩, trivial⟩⟩
theorem deads_facts (dead : CellId → Option Bool) (vis : RefId → Bool) (i : CellId) : ∀ (es : List Expr),
    (namesInList vis es = true → namesInList vis (deadExprs dead es) = true) ∧
    (noCatchList es = true → noCatchList (deadExprs dead es) = true) ∧
    (callsBelowIdList i es = true → callsBelowIdList i (deadExprs dead es) = true)
  | [] => by simp [deadExprs]
  | e :: es => by
    have h1 := dead_facts dead vis i e; have h2 := deads_facts dead vis i es
    simp only [deadExprs, namesInList, noCatchList, callsBelowIdList, Bool.and_eq_true]
    exact ⟨fun h => ⟨h1.1 h.1, h2.1 h.2⟩, fun h => ⟨h1.2.1 h.1, h2.2.1 h.2⟩, fun h => ⟨h1.2.2 h.1, h2.2.2 h.2⟩⟩
end

theorem formulaOf_pw (R : RefId → Prop) (vis : RefId → Bool) (hvis : ∀ r, vis r = true → R r)
    (ar : CellId → Option Nat) (e : Expr) (key : Key) (ht : noCatch e = true) (hn : namesIn vis e = true) :
    NoCatch (formulaOf ar e key) ∧ NameReadsIn R (formulaOf ar e key) := by
  unfold formulaOf
  refine compile_pw R vis hvis ar key e _ _ ht hn (fun v => ⟨trivial, trivial⟩) ?_
  intro x e
  cases x
  · exact ⟨⟨trivial, trivial⟩, trivial⟩
  · exact ⟨⟨trivial, trivial⟩, trivial⟩

end MxModel.Exec
