import MxModel.Exec.Resolve
import MxModel.Proofs.ExecCertCellsDel
/-!
# The resolution layer: namespace edits are batch edits

* `resolve_congr`: the resolved behaviour depends only on what the namespace says about the names
  the source mentions.
* `nsEdit_ci`: the namespaces of a set `N` of spaces change in any way (cells and references
  created, deleted, rebound, derived members appearing in sub spaces, …) and every cells of every
  space in `N` is notified: the certificate invariant holds for the new definitions – an instance
  of `batchEdit_ci`, because the formulas of the cells outside `N` are resolved in namespaces that
  did not change.  Derived cells of sub spaces are just cells whose home is the sub space.
* `nsDelCell_ci`, `nsNewCell_ci`: `St.delCell` / `St.newCell` for definitions given at source level.
-/
namespace MxModel.Exec

theorem resolve_congr (ns ns' : Ns) : ∀ (p : SProg), (∀ x, Mentions p x → ns x = ns' x) →
    resolve ns p = resolve ns' p := by
  intro p
  induction p with
  | ret v => intro _; rfl
  | raise e => intro _; rfl
  | reraise e => intro _; rfl
  | call n k ih =>
    intro h
    simp only [resolve]
    congr 1
    funext r
    exact ih r (fun x hx => h x ⟨r, hx⟩)
  | read a r k ih =>
    intro h
    simp only [resolve]
    congr 1
    funext o
    exact ih o (fun x hx => h x ⟨o, hx⟩)
  | name y k ih =>
    intro h
    simp only [resolve]
    rw [h y (Or.inl rfl)]
    exact ih _ (fun x hx => h x (Or.inr ⟨_, hx⟩))

/-- a formula is unchanged by a namespace edit that leaves alone the names its source mentions -/
theorem formula_unchanged (se : SEnv) (nss' : Nat → Ns) (n : Node)
    (h : ∀ x, Mentions (se.src n) x → se.nss (se.home n.1) x = nss' (se.home n.1) x) :
    (se.withNss nss').toEnv.formula n = se.toEnv.formula n :=
  (resolve_congr _ _ _ h).symm

variable {lt : Node → Node → Prop}

/-- a namespace edit of the spaces in `N` is a batch edit of the cells living there -/
theorem batchEdit_of_nsEdit (se : SEnv) (nss' : Nat → Ns) (N : Nat → Prop)
    (hN : ∀ sp, ¬ N sp → nss' sp = se.nss sp) :
    BatchEdit se.toEnv (se.withNss nss').toEnv (fun c => N (se.home c)) := by
  refine ⟨?_, fun _ _ => rfl, fun _ _ => rfl, ?_, rfl⟩
  · intro n hn
    show resolve (nss' (se.home n.1)) (se.src n) = resolve (se.nss (se.home n.1)) (se.src n)
    rw [hN _ hn]
  · intro c hc
    show (nss' (se.home c) (se.cellName c) == some (.cell c)) = (se.nss (se.home c) (se.cellName c) == some (.cell c))
    rw [hN _ hc]

/-- **an edit that changes the namespaces of a set of spaces `N` and notifies every cells of every
space in `N` re-establishes the invariant.**  `L`: the notified cells; every cells whose home is in
`N` is notified or has no node (`hL`); a cells of `N` that holds an input still exists (`hinp`). -/
theorem nsEdit_ci (se : SEnv) (nss' : Nat → Ns) (N : Nat → Prop) (L : List CellId) {s : St}
    (h : CI se.toEnv lt s) (hN : ∀ sp, ¬ N sp → nss' sp = se.nss sp)
    (hL : ∀ c, N (se.home c) → c ∈ L ∨ ∀ x ∈ s.gn, x.cell ≠ c)
    (hinp : ∀ n ∈ s.inputs, N (se.home n.1) → (se.withNss nss').toEnv.alive n.1 = true) :
    CI (se.withNss nss').toEnv lt (s.notifyAll se.toEnv L) := by
  refine batchEdit_ci L (fun c => N (se.home c)) h (batchEdit_of_nsEdit se nss' N hN) hL ?_
  intro n hn hNn
  refine ⟨?_, hinp n hn hNn⟩
  exact (h.gi.heldNodes n (h.gi.inputsHeld n hn)).2

/-- `del space.c` with definitions given at source level: the namespace of `c`'s home changes (the
name is unbound – and whatever else changes there), the other namespaces do not; the other cells of
the home keep existing.  `hdecl`: the cells of the home are declared (they are the ones notified). -/
theorem nsDelCell_ci (se : SEnv) (nss' : Nat → Ns) (c : CellId) {s : St} (h : CI se.toEnv lt s)
    (hN : ∀ sp, sp ≠ se.home c → nss' sp = se.nss sp)
    (hdecl : ∀ c', se.home c' = se.home c → c' ∈ se.cells)
    (hkeep : ∀ c', se.home c' = se.home c → c' ≠ c →
      (se.withNss nss').toEnv.alive c' = se.toEnv.alive c') :
    CI (se.withNss nss').toEnv lt (s.delCell se.toEnv c) := by
  have hb := batchEdit_of_nsEdit se nss' (fun sp => sp = se.home c) hN
  have hsib : ∀ c', c' ∈ se.toEnv.siblings c ↔ (c' ∈ se.cells ∧ se.home c' = se.home c) := by
    intro c'
    simp [SEnv.toEnv]
  refine delCell_ci h (hb.mono ?_) ?_
  · intro c' hc'
    exact Or.inr ((hsib c').mpr ⟨hdecl c' hc', hc'⟩)
  · intro c' hc' hne
    exact ⟨rfl, hkeep c' ((hsib c').mp hc').2 hne⟩

/-- `space.new_cells(c)` with definitions given at source level -/
theorem nsNewCell_ci (se : SEnv) (nss' : Nat → Ns) (c : CellId) {s : St} (h : CI se.toEnv lt s)
    (hdead : se.toEnv.alive c = false)
    (hN : ∀ sp, sp ≠ se.home c → nss' sp = se.nss sp)
    (hdecl : ∀ c', se.home c' = se.home c → c' ∈ se.cells)
    (hkeep : ∀ c', se.home c' = se.home c → c' ≠ c →
      (se.withNss nss').toEnv.alive c' = se.toEnv.alive c') :
    CI (se.withNss nss').toEnv lt (s.newCell se.toEnv c) := by
  have hb := batchEdit_of_nsEdit se nss' (fun sp => sp = se.home c) hN
  have hsib : ∀ c', c' ∈ se.toEnv.siblings c ↔ (c' ∈ se.cells ∧ se.home c' = se.home c) := by
    intro c'
    simp [SEnv.toEnv]
  refine newCell_ci h hdead (hb.mono ?_) ?_
  · intro c' hc'
    exact Or.inr ((hsib c').mpr ⟨hdecl c' hc', hc'⟩)
  · intro c' hc' hne
    exact ⟨rfl, hkeep c' ((hsib c').mp hc').2 hne⟩

end MxModel.Exec
