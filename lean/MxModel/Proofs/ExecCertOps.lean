import MxModel.Proofs.ExecCertEdit
/-!
# The clearing modelx performs for each edit discharges K1 (T3, T4)

* reference edits (`St.delRef`, `St.newRef`, `St.changeRef`, `St.setRef`): by-name readers are
  elements of observer cells (dropped unless input) or were computed through an uncached
  observer cells (descendants of its object node); attribute-path readers are successors of
  the reference in the reference graph; everything computed from those goes with them;
* formula / flag edits (`St.setFormula` = `clear_obj`);
* value edits (`St.clearValueAt`, `St.setValue`).
-/
namespace MxModel.Exec

/-- a fold of clearing steps in which the step for key `k` removes its targets -/
theorem clr_fold_gen {κ : Type} (D : RefId × Node → Prop) (step : St → κ → St)
    (Tgt : St → κ → GNode → Prop)
    (hstep : ∀ s k, EdgeOK s → ∃ R, Clr s R D (step s k) ∧ ∀ x, Tgt s k x → x ∈ R)
    (hT : ∀ s R s' k x, Clr s R D s' → Tgt s k x → x ∉ R → Tgt s' k x) :
    ∀ (keys : List κ) (s : St), EdgeOK s →
      ∃ R, Clr s R D (keys.foldl step s) ∧ ∀ k ∈ keys, ∀ x, Tgt s k x → x ∈ R := by
  intro keys
  induction keys with
  | nil => intro s _; exact ⟨[], Clr.refl s D, by simp⟩
  | cons k rest ih =>
    intro s he
    obtain ⟨R1, h1, hk⟩ := hstep s k he
    obtain ⟨R2, h2, hrest⟩ := ih (step s k) (h1.edgeOK he)
    refine ⟨R1 ++ R2, h1.trans h2, ?_⟩
    intro k' hk' x hx
    simp only [List.mem_cons] at hk'
    simp only [List.mem_append]
    rcases hk' with rfl | hk'
    · exact Or.inl (hk x hx)
    · by_cases hr : x ∈ R1
      · exact Or.inl hr
      · exact Or.inr (hrest k' hk' x (hT s R1 _ k' x h1 hx hr))

/-- what `on_namespace_change` of cells `c` removes -/
def NsTarget (env : Env) (s : St) (c : CellId) (x : GNode) : Prop :=
  (env.cached c = true ∧ ∃ n, x = .elem n ∧ n.1 = c ∧ (lookup s.data n).isSome ∧ n ∉ s.inputs ∧
    GNode.elem n ∈ s.gn) ∨
  (env.cached c = false ∧ x = .obj c ∧ GNode.obj c ∈ s.gn)

theorem clr_onNamespaceChange (env : Env) (s : St) (D : RefId × Node → Prop) (he : EdgeOK s) (c : CellId) :
    ∃ R, Clr s R D (s.onNamespaceChange env c) ∧ ∀ x, NsTarget env s c x → x ∈ R := by
  unfold St.onNamespaceChange
  split
  · rename_i hc
    obtain ⟨R, h1, h2⟩ := clr_clearAllValues s D he c false
    refine ⟨R, h1, ?_⟩
    rintro x (⟨_, n, rfl, hnc, hl, hin, hgn⟩ | ⟨hc', _⟩)
    · exact h2 n hnc hl (Or.inr hin) hgn
    · rw [hc] at hc'; cases hc'
  · rename_i hc
    obtain ⟨R, h1, _, h3⟩ := clr_clearObj s D he c
    refine ⟨R, h1, ?_⟩
    rintro x (⟨hc', _⟩ | ⟨_, rfl, hgn⟩)
    · exact absurd hc' hc
    · exact h3 hgn

theorem clr_notifyObservers (env : Env) (s : St) (D : RefId × Node → Prop) (he : EdgeOK s) (r : RefId) :
    ∃ R, Clr s R D (s.notifyObservers env r) ∧
      ∀ c ∈ env.observers r, ∀ x, NsTarget env s c x → x ∈ R := by
  unfold St.notifyObservers
  refine clr_fold_gen D (fun s c => s.onNamespaceChange env c) (NsTarget env)
    (fun s c he => clr_onNamespaceChange env s D he c) ?_ (env.observers r) s he
  intro s R s' c x hc ht hr
  rcases ht with ⟨h1, n, rfl, hnc, hl, hin, hgn⟩ | ⟨h1, rfl, hgn⟩
  · left
    refine ⟨h1, n, rfl, hnc, ?_, ?_, (hc.mem_gn _).mpr ⟨hgn, hr⟩⟩
    · rw [hc.lookup, if_neg hr]; exact hl
    · exact fun h => hin ((hc.mem_inputs n).mp h).1
  · right
    exact ⟨h1, rfl, (hc.mem_gn _).mpr ⟨hgn, hr⟩⟩

/-- what the clearing of an edit of reference `r` is known to have removed -/
structure RefFacts (env : Env) (s : St) (r : RefId) (R : List GNode) : Prop where
  byName : ∀ c ∈ env.observers r, ∀ x, NsTarget env s c x → x ∈ R
  byAttr : (env.refs r).isSome = true → ∀ n, (r, n) ∈ s.rg → GNode.elem n ∈ s.gn → GNode.elem n ∈ R

theorem dropOf_mono {s s1 : St} {r : RefId} (h : ∀ e ∈ s1.rg, e ∈ s.rg) :
    ∀ e, dropOf s1 r e → dropOf s r e := by
  intro e he
  rcases he with he | he
  · exact Or.inl he
  · exact Or.inr (h _ he)

theorem clr_delRef (env : Env) (s : St) (he : EdgeOK s) (r : RefId) :
    ∃ R, Clr s R (dropOf s r) (s.delRef env r) ∧ RefFacts env s r R := by
  unfold St.delRef
  obtain ⟨R1, h1, f1⟩ := clr_notifyObservers env s (dropOf s r) he r
  obtain ⟨R2, h2, f2⟩ := clr_clearAttrReferrers (s.notifyObservers env r) (h1.edgeOK he) r
  refine ⟨R1 ++ R2, h1.trans (h2.weaken (dropOf_mono h1.rgSub)), ?_, ?_⟩
  · intro c hc x hx
    exact List.mem_append_left _ (f1 c hc x hx)
  · intro _ n hrn hgn
    by_cases hr : GNode.elem n ∈ R1
    · exact List.mem_append_left _ hr
    · refine List.mem_append_right _ (f2 n ?_ ((h1.mem_gn _).mpr ⟨hgn, hr⟩))
      -- the notification drops reference-graph edges into removed elements only
      obtain ⟨R1', h1', _⟩ := clr_notifyObservers env s (fun _ => False) he r
      by_cases hr' : GNode.elem n ∈ R1'
      · -- removed from the graph, hence (same state) not a node any more: contradiction with `hr`
        have : GNode.elem n ∉ (s.notifyObservers env r).gn := fun h => ((h1'.mem_gn _).mp h).2 hr'
        exact absurd ((h1.mem_gn _).mpr ⟨hgn, hr⟩) this
      · exact h1'.rgKeep (r, n) hrn hr' (fun h => h)

theorem RefFacts.mono {env : Env} {s : St} {r : RefId} {R R' : List GNode} (h : RefFacts env s r R)
    (hsub : ∀ x ∈ R, x ∈ R') : RefFacts env s r R' :=
  ⟨fun c hc x hx => hsub x (h.byName c hc x hx), fun hs n hrn hgn => hsub _ (h.byAttr hs n hrn hgn)⟩

theorem clr_newRef (env : Env) (s : St) (D : RefId × Node → Prop) (he : EdgeOK s) (r : RefId) :
    ∃ R, Clr s R D (s.newRef env r) ∧ ∀ c ∈ env.observers r, ∀ x, NsTarget env s c x → x ∈ R :=
  clr_notifyObservers env s D he r

theorem clr_changeRef (env : Env) (s : St) (he : EdgeOK s) (r : RefId) :
    ∃ R, Clr s R (dropOf s r) (s.changeRef env r) ∧ RefFacts env s r R := by
  unfold St.changeRef
  obtain ⟨R1, h1, f1⟩ := clr_delRef env s he r
  obtain ⟨R2, h2, _⟩ := clr_newRef env (s.delRef env r) (dropOf s r) (h1.edgeOK he) r
  have h12 := h1.trans h2
  obtain ⟨R3, h3, _⟩ := clr_clearAttrReferrers ((s.delRef env r).newRef env r) (h12.edgeOK he) r
  refine ⟨(R1 ++ R2) ++ R3, h12.trans (h3.weaken (dropOf_mono h12.rgSub)), f1.mono ?_⟩
  intro x hx
  simp [hx]

/-- the clearing of `space.r = v` -/
theorem clr_setRef (env : Env) (s : St) (he : EdgeOK s) (r : RefId) :
    ∃ R D, Clr s R D (s.setRef env r) ∧ RefFacts env s r R ∧
      (∀ e, D e → (env.refs r).isSome = true ∧ dropOf s r e) := by
  unfold St.setRef
  split
  · rename_i hs
    obtain ⟨R, h1, f1⟩ := clr_changeRef env s he r
    exact ⟨R, dropOf s r, h1, f1, fun e h => ⟨hs, h⟩⟩
  · rename_i hs
    obtain ⟨R, h1, f1⟩ := clr_newRef env s (fun _ => False) he r
    exact ⟨R, fun _ => False, h1, ⟨f1, fun h => absurd h hs⟩, fun e h => h.elim⟩

/-! ### K1 for reference edits -/

/-- an edit of reference `r` only -/
structure RefEdit (env env' : Env) (r : RefId) : Prop where
  formula : env'.formula = env.formula
  cached : env'.cached = env.cached
  allowNone : env'.allowNone = env.allowNone
  refs : ∀ r', r' ≠ r → env'.refs r' = env.refs r'
  alive : env'.alive = env.alive

theorem refEdit_cinv {env env' : Env} {lt : Node → Node → Prop} {s s' : St} {r : RefId}
    {R : List GNode} {D : RefId × Node → Prop}
    (hgi : GI env lt s) (hinv : CInv env s) (hsc : Scoped env) (hnc : NoCatchEnv env)
    (hed : RefEdit env env' r) (hc : Clr s R D s') (hf : RefFacts env s r R)
    (hD : ∀ e, D e → (env.refs r).isSome = true ∧ dropOf s r e) : CInv env' s' := by
  refine cinv_clr hc hinv ?_
  intro n v tr hl hin hnR hcert
  have hheld : (lookup s.data n).isSome := by rw [hl]; rfl
  have hgn : GNode.elem n ∈ s.gn := (hgi.heldNodes n hheld).1
  obtain ⟨f1, f2, f3⟩ := replay_facts env hsc hnc tr n.1 _ v hcert.replay (hsc n) (hnc n)
  -- the element itself is not a recorded attribute-path reader of an existing `r`
  have hnotReader : (env.refs r).isSome = true → (r, n) ∉ s.rg :=
    fun hs hrn => hnR (hf.byAttr hs n hrn hgn)
  -- no recorded read is of `r`
  have hnoRead : ∀ c a x, FEv.read c a r x ∉ flat n.1 tr := by
    intro c a x hm
    have hok := hcert.events _ hm
    cases a with
    | false =>
      have hobs := f2 c r x hm
      rcases flat_read_frame tr n.1 c false r x hm with rfl | ⟨m, hmu, rfl⟩
      · exact hnR (hf.byName n.1 hobs _ (Or.inl ⟨(hgi.heldNodes n hheld).2, n, rfl, rfl, hheld, hin, hgn⟩))
      · have hedge : (GNode.obj m.1, GNode.elem n) ∈ s.ge := hcert.events _ hmu
        have hobj := hf.byName m.1 hobs _ (Or.inr ⟨f1 m hmu, rfl, (hgi.edgeNodes _ _ hedge).1⟩)
        exact hnR (hc.closed _ _ hedge hobj)
    | true =>
      cases x with
      | none => exact f3 c r hm
      | some w =>
        have hcur : env.refs r = some w := hok.1
        exact hnotReader (by rw [hcur]; rfl) (hok.2 rfl rfl)
  refine ⟨by rw [hed.formula], by rw [hed.allowNone], ?_, ?_⟩
  · intro ev hm
    cases ev with
    | read c a r' x =>
      refine hed.refs r' ?_
      rintro rfl
      exact hnoRead c a x hm
    | call m w => simp only [Stable, hed.cached]
    | ucall m => simp only [Stable, hed.cached, hed.formula, and_self]
  · intro c r' x hm hd
    obtain ⟨hs, hdrop⟩ := hD _ hd
    rcases hdrop with h | h
    · simp only [] at h; subst h; exact hnoRead c true x hm
    · exact hnotReader hs h

/-- `GI` after an edit that keeps the flags -/
theorem refEdit_gi {env env' : Env} {lt : Node → Node → Prop} {s s' : St} {r : RefId}
    {R : List GNode} {D : RefId × Node → Prop} (hgi : GI env lt s) (hst : s.stack = [])
    (hed : RefEdit env env' r) (hc : Clr s R D s') : GI env' lt s' :=
  hgi.of_clr hst hc (fun m _ => by rw [hed.cached])

/-! ### formula and flag edits -/

/-- a change of the definition (formula, cache flag, `allow_none`) of cells `c` only – the
environments `setFormula_cinv` relates when `clear_obj(c)` IS performed (modelx performs it for
formula and flag edits, not for an `allow_none` edit) -/
structure CellEdit (env env' : Env) (c : CellId) : Prop where
  formula : ∀ n : Node, n.1 ≠ c → env'.formula n = env.formula n
  cached : ∀ c', c' ≠ c → env'.cached c' = env.cached c'
  allowNone : ∀ c', c' ≠ c → env'.allowNone c' = env.allowNone c'
  refs : env'.refs = env.refs
  alive : env'.alive = env.alive

theorem setFormula_cinv {env env' : Env} {lt : Node → Node → Prop} {s : St} {c : CellId}
    (hgi : GI env lt s) (hst : s.stack = []) (hinv : CInv env s) (hed : CellEdit env env' c) :
    CInv env' (s.setFormula c) ∧ GI env' lt (s.setFormula c) := by
  unfold St.setFormula
  obtain ⟨R, hc, hel, hobj⟩ := clr_clearObj s (fun _ => False) hgi.edgeOK c
  constructor
  · refine cinv_clr hc hinv ?_
    intro n v tr hl hin hnR hcert
    have hheld : (lookup s.data n).isSome := by rw [hl]; rfl
    have hgn : GNode.elem n ∈ s.gn := (hgi.heldNodes n hheld).1
    have hnc : n.1 ≠ c := fun h => hnR (hel n h hgn)
    refine ⟨hed.formula n hnc, hed.allowNone n.1 hnc, ?_, fun _ _ _ _ h => h⟩
    intro ev hm
    have hok := hcert.events ev hm
    cases ev with
    | read c' a r x => simp only [Stable, hed.refs]
    | call m w =>
      obtain ⟨_, _, hedge⟩ := hok
      refine hed.cached m.1 ?_
      intro h
      exact hnR (hc.closed _ _ hedge (hel m h (hgi.edgeNodes _ _ hedge).1))
    | ucall m =>
      have hedge : (GNode.obj m.1, GNode.elem n) ∈ s.ge := hok
      have hmc : m.1 ≠ c := by
        intro h
        have := hobj (h ▸ (hgi.edgeNodes _ _ hedge).1)
        exact hnR (hc.closed _ _ hedge (h ▸ this))
      exact ⟨hed.cached m.1 hmc, hed.formula m hmc⟩
  · refine hgi.of_clr hst hc ?_
    intro m hm
    obtain ⟨h1, h2⟩ := (hc.mem_gn _).mp hm
    exact hed.cached m.1 (fun h => h2 (hel m h h1))

/-! ### value edits -/

theorem stable_refl (env : Env) (ev : FEv) : Stable env env ev := by
  cases ev <;> simp [Stable]

theorem clr_cinv_same {env : Env} {s s' : St} {R : List GNode}
    (hc : Clr s R (fun _ => False) s') (hinv : CInv env s) : CInv env s' :=
  cinv_clr hc hinv (fun _ _ _ _ _ _ _ => ⟨rfl, rfl, fun ev _ => stable_refl env ev, fun _ _ _ _ h => h⟩)

theorem clearValueAt_cinv {env : Env} {lt : Node → Node → Prop} {s : St} (hgi : GI env lt s)
    (hinv : CInv env s) (n : Node) (ci : Bool) : CInv env (s.clearValueAt n ci) := by
  obtain ⟨R, hc, _⟩ := clr_clearValueAt s (fun _ => False) hgi.edgeOK n ci
  exact clr_cinv_same hc hinv

theorem clearAllValues_cinv {env : Env} {lt : Node → Node → Prop} {s : St} (hgi : GI env lt s)
    (hinv : CInv env s) (c : CellId) (ci : Bool) : CInv env (s.clearAllValues c ci) := by
  obtain ⟨R, hc, _⟩ := clr_clearAllValues s (fun _ => False) hgi.edgeOK c ci
  exact clr_cinv_same hc hinv

theorem clearObj_cinv {env : Env} {lt : Node → Node → Prop} {s : St} (hgi : GI env lt s)
    (hinv : CInv env s) (c : CellId) : CInv env (s.clearObj c) := by
  obtain ⟨R, hc, _⟩ := clr_clearObj s (fun _ => False) hgi.edgeOK c
  exact clr_cinv_same hc hinv

/-- a new input enters the cache as the youngest entry; no certificate mentions it -/
theorem addInput_cinv {env : Env} {s1 s' : St} (hinv : CInv env s1) (n : Node) (v : Val)
    (hun : lookup s1.data n = none) (hdata : s'.data = insert s1.data n v)
    (hge : s'.ge = s1.ge) (hrg : s'.rg = s1.rg)
    (hinp : ∀ m, m ∈ s'.inputs ↔ m ∈ s1.inputs ∨ m = n) : CInv env s' := by
  intro m w hl hin
  have hmn : m ≠ n := fun h => hin ((hinp m).mpr (Or.inr h))
  rw [hdata, lookup_insert, if_neg (Ne.symm hmn)] at hl
  obtain ⟨tr, hcert⟩ := hinv m w hl (fun h => hin ((hinp m).mpr (Or.inl h)))
  refine ⟨tr, hcert.replay, hcert.noneOK, ?_, fun a ha => hcert.just a (hge ▸ ha)⟩
  intro ev hm
  have hok := hcert.events ev hm
  cases ev with
  | read c a r x => exact ⟨hok.1, fun ha hx => by rw [hrg]; exact hok.2 ha hx⟩
  | call k u =>
    obtain ⟨hlk, hrk, hedge⟩ := hok
    have hkn : k ≠ n := by intro h; subst h; rw [hun] at hlk; cases hlk
    refine ⟨by rw [hdata, lookup_insert, if_neg (Ne.symm hkn)]; exact hlk, ?_, by rw [hge]; exact hedge⟩
    rw [hdata, rank_insert_other _ _ _ _ hun hkn, rank_insert_other _ _ _ _ hun hmn]
    exact hrk
  | ucall k => show _ ∈ s'.ge; rw [hge]; exact hok

theorem setValue_cinv {env : Env} {lt : Node → Node → Prop} {s : St} (hgi : GI env lt s)
    (hinv : CInv env s) (n : Node) (v : Val) : CInv env (s.setValue env n v).1 := by
  unfold St.setValue
  split
  · exact hinv
  · simp only []
    have h1 := clearValueAt_cinv hgi hinv n true
    have hun := clearValueAt_unheld hgi n
    generalize s.clearValueAt n true = s1 at h1 hun
    have hfields : ∀ (s2 : St), s2 = ({ s1 with data := insert s1.data n v } : St).addNode (.elem n) →
        s2.data = insert s1.data n v ∧ s2.ge = s1.ge ∧ s2.rg = s1.rg ∧ s2.inputs = s1.inputs := by
      intro s2 h; subst h
      unfold St.addNode; split <;> exact ⟨rfl, rfl, rfl, rfl⟩
    obtain ⟨hd, he, hr, hi⟩ := hfields _ rfl
    refine addInput_cinv h1 n v hun hd he hr ?_
    intro m
    simp only [hi]
    split
    · rename_i hcont
      simp only [List.contains_eq_mem, decide_eq_true_eq] at hcont
      constructor
      · exact Or.inl
      · rintro (h | rfl); exact h; exact hcont
    · simp

end MxModel.Exec
