import MxModel.Proofs.ExecCertTop
/-!
# Structural edits at the value layer: a SET of cells is redefined, their namespaces notify

`batchEdit_ci` – the batch / namespace generalisation of `setFormula_ci`.  Let an edit change the
definitions (formula, cache flag, `allow_none`, existence) of the cells in `C` – arbitrarily and
all at once – and let modelx's clearing be the namespace notification of a list `L` of cells
(`St.notifyAll`: a cached cells drops its computed values with their dependents and KEEPS its
inputs, an uncached cells drops everything computed through it).  If every redefined cells is
either notified or has no node in the trace graph (it was cleared by `clear_obj` before, or never
existed), the certificate invariant holds again for the NEW definitions.  Side conditions, all
about the inputs that survive: a redefined cells that keeps an input stays cached and in
existence.

Instances: a cells is deleted (`St.delCell` = `clear_obj`, then the notification of the cells of
its space), a cells is created (`St.newCell`), and – through the resolution layer – any edit of
the namespace of a set of spaces (`Proofs/ExecResolve*.lean`).
-/
namespace MxModel.Exec

/-- an edit of the definitions of the cells in `C` only (anything may change for those) -/
structure BatchEdit (env env' : Env) (C : CellId → Prop) : Prop where
  formula : ∀ n : Node, ¬ C n.1 → env'.formula n = env.formula n
  cached : ∀ c, ¬ C c → env'.cached c = env.cached c
  allowNone : ∀ c, ¬ C c → env'.allowNone c = env.allowNone c
  alive : ∀ c, ¬ C c → env'.alive c = env.alive c
  refs : env'.refs = env.refs

theorem BatchEdit.mono {env env' : Env} {C C' : CellId → Prop} (h : BatchEdit env env' C)
    (hsub : ∀ c, C c → C' c) : BatchEdit env env' C' :=
  ⟨fun n hn => h.formula n (fun hc => hn (hsub _ hc)), fun c hn => h.cached c (fun hc => hn (hsub _ hc)),
   fun c hn => h.allowNone c (fun hc => hn (hsub _ hc)), fun c hn => h.alive c (fun hc => hn (hsub _ hc)), h.refs⟩

theorem clr_notifyAll (env : Env) (s : St) (D : RefId × Node → Prop) (he : EdgeOK s) (L : List CellId) :
    ∃ R, Clr s R D (s.notifyAll env L) ∧ ∀ c ∈ L, ∀ x, NsTarget env s c x → x ∈ R := by
  unfold St.notifyAll
  refine clr_fold_gen D (fun s c => s.onNamespaceChange env c) (NsTarget env)
    (fun s c he => clr_onNamespaceChange env s D he c) ?_ L s he
  intro s R s' c x hc ht hr
  rcases ht with ⟨h1, n, rfl, hnc, hl, hin, hgn⟩ | ⟨h1, rfl, hgn⟩
  · left
    refine ⟨h1, n, rfl, hnc, ?_, ?_, (hc.mem_gn _).mpr ⟨hgn, hr⟩⟩
    · rw [hc.lookup, if_neg hr]; exact hl
    · exact fun h => hin ((hc.mem_inputs n).mp h).1
  · right
    exact ⟨h1, rfl, (hc.mem_gn _).mpr ⟨hgn, hr⟩⟩

/-- recorded uncached callees are uncached (read off the replay) -/
theorem replay_ucall_uncached (env : Env) : ∀ (tr : Tr) (c : CellId) (p : Prog) (v : Val),
    Replay env tr p v → ∀ m, FEv.ucall m ∈ flat c tr → env.cached m.1 = false := by
  intro tr
  induction tr with
  | nil => intro c p v _ m hm; simp [flat] at hm
  | read a r x t ih =>
    intro c p v h m hm
    cases p with
    | read a' r' k =>
      simp only [Replay] at h
      simp only [flat, List.mem_cons, reduceCtorEq, false_or] at hm
      exact ih c _ v h.2.2 m hm
    | ret _ => simp [Replay] at h
    | raise _ => simp [Replay] at h
    | reraise _ => simp [Replay] at h
    | call _ _ => simp [Replay] at h
  | call m0 w t ih =>
    intro c p v h m hm
    cases p with
    | call m' k =>
      simp only [Replay] at h
      simp only [flat, List.mem_cons, reduceCtorEq, false_or] at hm
      exact ih c _ v h.2.2 m hm
    | ret _ => simp [Replay] at h
    | raise _ => simp [Replay] at h
    | reraise _ => simp [Replay] at h
    | read _ _ _ => simp [Replay] at h
  | ucall m0 w sub t ihs iht =>
    intro c p v h m hm
    cases p with
    | call m' k =>
      simp only [Replay] at h
      obtain ⟨rfl, hunc, hrs, hrt⟩ := h
      simp only [flat, List.mem_cons, FEv.ucall.injEq, List.mem_append] at hm
      rcases hm with rfl | hm | hm
      · exact hunc
      · exact ihs m'.1 _ w hrs m hm
      · exact iht c _ v hrt m hm
    | ret _ => simp [Replay] at h
    | raise _ => simp [Replay] at h
    | reraise _ => simp [Replay] at h
    | read _ _ _ => simp [Replay] at h

variable {env env' : Env} {lt : Node → Node → Prop}

/-- a node of a redefined cells that survives the notification is an input element -/
theorem batch_survivor {s s' : St} {R : List GNode} {D : RefId × Node → Prop} {L : List CellId}
    {C : CellId → Prop} (h : CI env lt s) (hc : Clr s R D s')
    (hR : ∀ c ∈ L, ∀ x, NsTarget env s c x → x ∈ R)
    (hC : ∀ c, C c → c ∈ L ∨ ∀ x ∈ s.gn, x.cell ≠ c)
    (x : GNode) (hx : x ∈ s.gn) (hxR : x ∉ R) (hxC : C x.cell) : ∃ m, x = .elem m ∧ m ∈ s.inputs := by
  have hL : x.cell ∈ L := by
    rcases hC _ hxC with h1 | h1
    · exact h1
    · exact absurd rfl (h1 x hx)
  cases x with
  | obj c =>
    exact absurd (hR c hL _ (Or.inr ⟨h.alive.objs c hx, rfl, hx⟩)) hxR
  | elem m =>
    refine ⟨m, rfl, ?_⟩
    apply Classical.byContradiction
    intro hin
    have hheld : (lookup s.data m).isSome := by
      rcases h.gi.nodesHeld m hx with h1 | h1
      · exact h1
      · rw [h.quiet.stack] at h1; cases h1
    exact hxR (hR m.1 hL _ (Or.inl ⟨h.gi.elemCached m hx, m, rfl, rfl, hheld, hin, hx⟩))

/-- **(i) the batch lemma**: the definitions of the cells in `C` change at once; the cells in `L`
are notified; every redefined cells is notified or has no node.  `hinp`: a redefined cells that
holds an input is (still) cached and exists under the new definitions. -/
theorem batchEdit_ci {s : St} (L : List CellId) (C : CellId → Prop) (h : CI env lt s)
    (hed : BatchEdit env env' C)
    (hC : ∀ c, C c → c ∈ L ∨ ∀ x ∈ s.gn, x.cell ≠ c)
    (hinp : ∀ n ∈ s.inputs, C n.1 → env'.cached n.1 = true ∧ env'.alive n.1 = true) :
    CI env' lt (s.notifyAll env L) := by
  obtain ⟨R, hc, hR⟩ := clr_notifyAll env s (fun _ => False) h.gi.edgeOK L
  have surv := fun x hx hxR hxC => batch_survivor h hc hR hC x hx hxR hxC
  -- the flags of the element nodes that stay are unchanged
  have hflag : ∀ m, GNode.elem m ∈ s.gn → GNode.elem m ∉ R → env'.cached m.1 = env.cached m.1 := by
    intro m hm hmR
    by_cases hmC : C m.1
    · obtain ⟨m', hm', hin⟩ := surv _ hm hmR hmC
      cases hm'
      rw [(hinp m hin hmC).1, h.gi.elemCached m hm]
    · exact hed.cached _ hmC
  refine ⟨?_, h.quiet.of_clr hc, ?_, ?_, h.rgHeld.of_clr hc⟩
  · exact h.gi.of_clr h.quiet.stack hc (fun m hm => hflag m ((hc.mem_gn _).mp hm).1 ((hc.mem_gn _).mp hm).2)
  · refine cinv_clr hc h.certs ?_
    intro n v tr hl hin hnR hcert
    have hheld : (lookup s.data n).isSome := by rw [hl]; rfl
    have hgn : GNode.elem n ∈ s.gn := (h.gi.heldNodes n hheld).1
    have hnC : ¬ C n.1 := by
      intro hnC
      obtain ⟨m', hm', hin'⟩ := surv _ hgn hnR hnC
      cases hm'; exact hin hin'
    refine ⟨hed.formula n hnC, hed.allowNone _ hnC, ?_, fun _ _ _ _ hd => hd⟩
    intro ev hm
    have hok := hcert.events ev hm
    cases ev with
    | read c' a r x => simp only [Stable, hed.refs]
    | call m w =>
      obtain ⟨_, _, hedge⟩ := hok
      have hmR : GNode.elem m ∉ R := fun hh => hnR (hc.closed _ _ hedge hh)
      exact hflag m (h.gi.edgeNodes _ _ hedge).1 hmR
    | ucall m =>
      have hedge : (GNode.obj m.1, GNode.elem n) ∈ s.ge := hok
      have hoR : GNode.obj m.1 ∉ R := fun hh => hnR (hc.closed _ _ hedge hh)
      have hmC : ¬ C m.1 := by
        intro hmC
        obtain ⟨m', hm', _⟩ := surv _ (h.gi.edgeNodes _ _ hedge).1 hoR hmC
        cases hm'
      exact ⟨hed.cached _ hmC, hed.formula m hmC⟩
  · refine h.alive.of_clr hc h.quiet.stack ?_ ?_
    · intro x hx
      obtain ⟨h1, h2⟩ := (hc.mem_gn _).mp hx
      by_cases hxC : C x.cell
      · obtain ⟨m, rfl, hin⟩ := surv _ h1 h2 hxC
        exact ((hinp m hin hxC).2).trans (h.alive.nodes _ h1).symm
      · exact hed.alive _ hxC
    · intro c hcn
      obtain ⟨h1, h2⟩ := (hc.mem_gn _).mp hcn
      by_cases hcC : C c
      · obtain ⟨m, hm, _⟩ := surv _ h1 h2 hcC
        cases hm
      · exact hed.cached _ hcC

/-! ### a cells is deleted, a cells is created -/

theorem notifySiblings_eq (env : Env) (s : St) (c : CellId) :
    s.notifySiblings env c = s.notifyAll env (env.siblings c) := rfl

/-- after `clear_obj c` no node of cells `c` is left -/
theorem clearObj_noNodes (s : St) (he : EdgeOK s) (c : CellId) :
    ∀ x ∈ (s.clearObj c).gn, x.cell ≠ c := by
  obtain ⟨R, hc, hel, hobj⟩ := clr_clearObj s (fun _ => False) he c
  intro x hx hxc
  obtain ⟨h1, h2⟩ := (hc.mem_gn _).mp hx
  cases x with
  | elem n => exact h2 (hel n hxc h1)
  | obj c' =>
    simp only [GNode.cell] at hxc
    subst hxc
    exact h2 (hobj h1)

/-- `clear_obj` of several cells (a cells and its derived copies in sub spaces): the invariant
stays, none of them has a node afterwards, and no cells gains one -/
theorem clearObjs_ci {s : St} (h : CI env lt s) (CL : List CellId) :
    CI env lt (CL.foldl St.clearObj s) ∧
    (∀ x ∈ (CL.foldl St.clearObj s).gn, x ∈ s.gn) ∧
    (∀ c ∈ CL, ∀ x ∈ (CL.foldl St.clearObj s).gn, x.cell ≠ c) := by
  induction CL generalizing s with
  | nil => exact ⟨h, fun _ hx => hx, fun _ hc => by cases hc⟩
  | cons c0 CL ih =>
    simp only [List.foldl_cons]
    obtain ⟨R, hc, _, _⟩ := clr_clearObj s (fun _ => False) h.gi.edgeOK c0
    obtain ⟨h1, h2, h3⟩ := ih (clearObj_ci h c0)
    refine ⟨h1, fun x hx => ((hc.mem_gn x).mp (h2 x hx)).1, ?_⟩
    intro c hcm x hx
    simp only [List.mem_cons] at hcm
    rcases hcm with rfl | hcm
    · exact clearObj_noNodes s h.gi.edgeOK c x (h2 x hx)
    · exact h3 c hcm x hx

/-- **(ii) deletion of cells `c`** (`St.delCell`): for ANY new definitions `env'` that differ from
the old ones at `c` (in particular: `c` no longer exists) and – arbitrarily in the formulas and
`allow_none` – at the cells of `c`'s space (their names resolve differently now); the flags and
the existence of the other cells of the space are unchanged (`hkeep`). -/
theorem delCell_ci {s : St} {c : CellId} (h : CI env lt s)
    (hed : BatchEdit env env' (fun c' => c' = c ∨ c' ∈ env.siblings c))
    (hkeep : ∀ c' ∈ env.siblings c, c' ≠ c → env'.cached c' = env.cached c' ∧ env'.alive c' = env.alive c') :
    CI env' lt (s.delCell env c) := by
  have h1 : CI env lt (s.clearObj c) := clearObj_ci h c
  have hno := clearObj_noNodes s h.gi.edgeOK c
  unfold St.delCell
  rw [notifySiblings_eq]
  refine batchEdit_ci (env.siblings c) _ h1 hed ?_ ?_
  · rintro c' (rfl | hc')
    · exact Or.inr hno
    · exact Or.inl hc'
  · intro n hn hC
    have hheld := h1.gi.inputsHeld n hn
    have hgn := (h1.gi.heldNodes n hheld).1
    have hne : n.1 ≠ c := hno _ hgn
    rcases hC with hC | hC
    · exact absurd hC hne
    · obtain ⟨k1, k2⟩ := hkeep n.1 hC hne
      exact ⟨k1.trans (h1.gi.heldNodes n hheld).2, k2.trans (h1.alive.nodes _ hgn)⟩

/-- **(ii) creation of cells `c`** (`St.newCell`; `c` did not exist): ANY definition for `c`, and
new formulas for the cells of its space. -/
theorem newCell_ci {s : St} {c : CellId} (h : CI env lt s) (hdead : env.alive c = false)
    (hed : BatchEdit env env' (fun c' => c' = c ∨ c' ∈ env.siblings c))
    (hkeep : ∀ c' ∈ env.siblings c, c' ≠ c → env'.cached c' = env.cached c' ∧ env'.alive c' = env.alive c') :
    CI env' lt (s.newCell env c) := by
  have hno : ∀ x ∈ s.gn, x.cell ≠ c := by
    intro x hx hxc
    have := h.alive.nodes x hx
    rw [hxc, hdead] at this; cases this
  unfold St.newCell
  rw [notifySiblings_eq]
  refine batchEdit_ci (env.siblings c) _ h hed ?_ ?_
  · rintro c' (rfl | hc')
    · exact Or.inr hno
    · exact Or.inl hc'
  · intro n hn hC
    have hheld := h.gi.inputsHeld n hn
    have hgn := (h.gi.heldNodes n hheld).1
    have hne : n.1 ≠ c := hno _ hgn
    rcases hC with hC | hC
    · exact absurd hC hne
    · obtain ⟨k1, k2⟩ := hkeep n.1 hC hne
      exact ⟨k1.trans (h.gi.heldNodes n hheld).2, k2.trans (h.alive.nodes _ hgn)⟩

end MxModel.Exec
