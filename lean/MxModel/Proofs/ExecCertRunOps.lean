import MxModel.Proofs.ExecCertCellsDel
import MxModel.Proofs.ExprCert
/-!
# The edit language of the value layer, and: every operation keeps the certificate invariant

Definitions and lemmas behind `C02.reachable_ci` (statements in `Props/C02.lean`): the regime `WF`,
the environment updates of the eleven operations, `step` / `run` / `Admissible`, `step_ci`,
`run_ci`; the syntactic class `tableEnv` (what `Driver.Exec.World.env` builds) and `tableEnv_wf`.
-/
namespace MxModel.C02
open MxModel.Exec

/-- the hypotheses on programs under which the certificate invariant is maintained -/
structure WF (env : Env) (lt : Node → Node → Prop) : Prop where
  ranked : Ranked env lt
  noCatch : NoCatchEnv env
  scoping : Scoped env

def _root_.MxModel.Exec.Env.withRef (env : Env) (r : RefId) (x : Option Val) : Env :=
  { env with refs := fun r' => if r' = r then x else env.refs r' }

def _root_.MxModel.Exec.Env.withFormula (env : Env) (c : CellId) (f : Key → Prog) : Env :=
  { env with formula := fun n => if n.1 = c then f n.2 else env.formula n }

def _root_.MxModel.Exec.Env.withCached (env : Env) (c : CellId) (b : Bool) : Env :=
  { env with cached := fun c' => if c' = c then b else env.cached c' }

/-- cells `c` is deleted (`b = false`) -/
def _root_.MxModel.Exec.Env.withAlive (env : Env) (c : CellId) (b : Bool) : Env :=
  { env with alive := fun c' => if c' = c then b else env.alive c' }

/-- cells `c` is created with formula `f`, cache flag `b`, `allow_none` `an` -/
def _root_.MxModel.Exec.Env.withCell (env : Env) (c : CellId) (f : Key → Prog) (b an : Bool) : Env :=
  { env with formula := fun n => if n.1 = c then f n.2 else env.formula n,
             cached := fun c' => if c' = c then b else env.cached c',
             allowNone := fun c' => if c' = c then an else env.allowNone c',
             alive := fun c' => if c' = c then true else env.alive c' }

theorem refEdit_withRef (env : Env) (r : RefId) (x : Option Val) : RefEdit env (env.withRef r x) r :=
  ⟨rfl, rfl, rfl, fun r' h => by simp [Env.withRef, h], rfl⟩

theorem cellEdit_withFormula (env : Env) (c : CellId) (f : Key → Prog) :
    CellEdit env (env.withFormula c f) c :=
  ⟨fun n h => by simp [Env.withFormula, h], fun _ _ => rfl, fun _ _ => rfl, rfl, rfl⟩

theorem cellEdit_withCached (env : Env) (c : CellId) (b : Bool) : CellEdit env (env.withCached c b) c :=
  ⟨fun _ _ => rfl, fun c' h => by simp [Env.withCached, h], fun _ _ => rfl, rfl, rfl⟩

theorem batchEdit_withAlive (env : Env) (c : CellId) (b : Bool) :
    BatchEdit env (env.withAlive c b) (fun c' => c' = c ∨ c' ∈ env.siblings c) :=
  ⟨fun _ _ => rfl, fun _ _ => rfl, fun _ _ => rfl,
   fun c' h => by simp only [Env.withAlive]; rw [if_neg (fun hc => h (Or.inl hc))], rfl⟩

theorem batchEdit_withCell (env : Env) (c : CellId) (f : Key → Prog) (b an : Bool) :
    BatchEdit env (env.withCell c f b an) (fun c' => c' = c ∨ c' ∈ env.siblings c) :=
  ⟨fun n h => by simp only [Env.withCell]; rw [if_neg (fun hc => h (Or.inl hc))],
   fun c' h => by simp only [Env.withCell]; rw [if_neg (fun hc => h (Or.inl hc))],
   fun c' h => by simp only [Env.withCell]; rw [if_neg (fun hc => h (Or.inl hc))],
   fun c' h => by simp only [Env.withCell]; rw [if_neg (fun hc => h (Or.inl hc))], rfl⟩

/-- a reference edit changes none of the hypotheses on programs -/
theorem wf_withRef {env : Env} {lt : Node → Node → Prop} (h : WF env lt) (r : RefId) (x : Option Val) :
    WF (env.withRef r x) lt := ⟨h.ranked, h.noCatch, h.scoping⟩

/-- neither does the deletion of a cells: the hypotheses speak about formulas only -/
theorem wf_withAlive {env : Env} {lt : Node → Node → Prop} (h : WF env lt) (c : CellId) (b : Bool) :
    WF (env.withAlive c b) lt := ⟨h.ranked, h.noCatch, h.scoping⟩

/-- the creation of a cells keeps the regime when its formula is in it -/
theorem wf_withCell {env : Env} {lt : Node → Node → Prop} (h : WF env lt) (c : CellId) (f : Key → Prog)
    (b an : Bool)
    (hf : ∀ k, CallsBelow lt (c, k) (f k) ∧ NoCatch (f k) ∧ NameReadsIn (fun r => c ∈ env.observers r) (f k)) :
    WF (env.withCell c f b an) lt := by
  refine ⟨?_, ?_, ?_⟩
  · intro n
    show CallsBelow lt n (if n.1 = c then f n.2 else env.formula n)
    split
    · rename_i hn
      have : n = (c, n.2) := by rw [← hn]
      rw [this]; exact (hf n.2).1
    · exact h.ranked n
  · intro n
    show NoCatch (if n.1 = c then f n.2 else env.formula n)
    split
    · exact (hf n.2).2.1
    · exact h.noCatch n
  · intro n
    show NameReadsIn (fun r => n.1 ∈ env.observers r) (if n.1 = c then f n.2 else env.formula n)
    split
    · rename_i hn; rw [hn]; exact (hf n.2).2.2
    · exact h.scoping n

/-! ### every reachable state -/

inductive Op
  | eval (n : Node)
  | setValue (n : Node) (v : Val)
  | clearAt (n : Node)
  | clear (c : CellId)
  | clearAll (c : CellId)
  | setRef (r : RefId) (v : Val)
  | delRef (r : RefId)
  | setFormula (c : CellId) (f : Key → Prog)
  | setCached (c : CellId) (b : Bool)
  | delCell (c : CellId)
  | newCell (c : CellId) (f : Key → Prog) (cached allowNone : Bool)
  /-- `mx.set_recursion(k)`: the limit changes, nothing is cleared -/
  | maxdepth (k : Nat)
  /-- the administrative calls (`start_stacktrace`, `get_error`, …): no effect on the state -/
  | admin (a : Admin)

/-- `mx.set_recursion(k)` -/
def _root_.MxModel.Exec.Env.withMaxdepth (env : Env) (k : Nat) : Env := { env with maxdepth := k }

theorem wf_withMaxdepth {env : Env} {lt : Node → Node → Prop} (h : WF env lt) (k : Nat) :
    WF (env.withMaxdepth k) lt := ⟨h.ranked, h.noCatch, h.scoping⟩

/-- the invariant does not mention the recursion limit -/
theorem ci_withMaxdepth {env : Env} {lt : Node → Node → Prop} {s : St} (h : CI env lt s) (k : Nat) :
    CI (env.withMaxdepth k) lt s :=
  ⟨⟨h.gi.nodesHeld, h.gi.heldNodes, h.gi.stackUnheld, h.gi.edgesOrd, h.gi.edgeNodes, h.gi.inputsHeld,
    h.gi.inputsNoPreds, h.gi.elemCached⟩, h.quiet,
   fun n v hl hin => by
     obtain ⟨tr, hc⟩ := h.certs n v hl hin
     exact ⟨tr, ⟨replay_congr env (env.withMaxdepth k) tr n.1 _ v hc.replay
       (fun ev _ => by cases ev <;> simp [Stable, Env.withMaxdepth]), hc.noneOK, hc.events, hc.just⟩⟩,
   ⟨h.alive.nodes, h.alive.stack, h.alive.objs⟩, h.rgHeld⟩

/-- one operation on the definitions and the mechanism state, in modelx's order: the clearing
happens while the old definitions are in force, then the definition changes.  An operation
through the handle of a cells that does not exist is refused (`DeletedObjectError`), so is the
deletion of a missing and the creation of an existing cells. -/
def step : Env × St → Op → Env × St
  | (env, s), .eval n => (env, if env.alive n.1 then (evalTop env n s).2 else s)
  | (env, s), .setValue n v => (env, if env.cached n.1 && env.alive n.1 then (s.setValue env n v).1 else s)
  | (env, s), .clearAt n => (env, s.clearValueAt n true)
  | (env, s), .clear c => (env, s.clearAllValues c false)
  | (env, s), .clearAll c => (env, s.clearAllValues c true)
  | (env, s), .setRef r v => (env.withRef r (some v), s.setRef env r)
  | (env, s), .delRef r => if (env.refs r).isSome then (env.withRef r none, s.delRef env r) else (env, s)
  | (env, s), .setFormula c f => if env.alive c then (env.withFormula c f, s.setFormula c) else (env, s)
  | (env, s), .setCached c b =>
    if env.cached c = b || !env.alive c then (env, s) else (env.withCached c b, s.setFormula c)
  | (env, s), .delCell c => if env.alive c then (env.withAlive c false, s.delCell env c) else (env, s)
  | (env, s), .newCell c f b an => if env.alive c then (env, s) else (env.withCell c f b an, s.newCell env c)
  | (env, s), .maxdepth k => (env.withMaxdepth k, s)
  | (env, s), .admin a => (env, s.admin a)

def run (st : Env × St) (ops : List Op) : Env × St := ops.foldl step st

/-- the definitions stay within the regime after every operation (automatic for everything
except formula and flag edits and the creation of a cells: `wf_withRef`, `wf_withAlive`) -/
def Admissible (lt : Node → Node → Prop) : Env × St → List Op → Prop
  | _, [] => True
  | st, op :: ops => WF (step st op).1 lt ∧ Admissible lt (step st op) ops

theorem step_ci (lt : Node → Node → Prop) (ho : StrictOrder lt) (st : Env × St) (op : Op)
    (hw : WF st.1 lt) (h : CI st.1 lt st.2) : CI (step st op).1 lt (step st op).2 := by
  obtain ⟨env, s⟩ := st
  cases op with
  | eval n =>
    simp only [step]
    split
    · rename_i hn; exact evalTop_ci ho hw.ranked hw.noCatch n hn h
    · exact h
  | setValue n v =>
    simp only [step]
    split
    · rename_i hc
      simp only [Bool.and_eq_true] at hc
      exact setValue_ci h n v hc.1 hc.2
    · exact h
  | clearAt n => exact clearValueAt_ci h n true
  | clear c => exact clearAllValues_ci h c false
  | clearAll c => exact clearAllValues_ci h c true
  | setRef r v => exact setRef_ci h hw.scoping hw.noCatch (refEdit_withRef env r (some v))
  | delRef r =>
    simp only [step]
    split
    · rename_i hex; exact delRef_ci h hw.scoping hw.noCatch (refEdit_withRef env r none) hex
    · exact h
  | setFormula c f =>
    simp only [step]
    split
    · exact setFormula_ci h (cellEdit_withFormula env c f)
    · exact h
  | setCached c b =>
    simp only [step]
    split
    · exact h
    · exact setFormula_ci h (cellEdit_withCached env c b)
  | delCell c =>
    simp only [step]
    split
    · refine delCell_ci h (batchEdit_withAlive env c false) ?_
      intro c' _ hne
      simp [Env.withAlive, hne]
    · exact h
  | newCell c f b an =>
    simp only [step]
    split
    · exact h
    · rename_i hd
      refine newCell_ci h (by simpa using hd) (batchEdit_withCell env c f b an) ?_
      intro c' _ hne
      simp [Env.withCell, hne]
  | maxdepth k => exact ci_withMaxdepth h k
  | admin a => exact h

theorem run_ci (lt : Node → Node → Prop) (ho : StrictOrder lt) : ∀ (ops : List Op) (st : Env × St),
    WF st.1 lt → CI st.1 lt st.2 → Admissible lt st ops →
    CI (run st ops).1 lt (run st ops).2 ∧ WF (run st ops).1 lt := by
  intro ops
  induction ops with
  | nil => intro st hw h _; exact ⟨h, hw⟩
  | cons op rest ih =>
    intro st hw h hadm
    exact ih (step st op) hadm.1 (step_ci lt ho st op hw h) hadm.2

/-! ### a syntactic class of programs in the regime

Environments built from a table of bodies without a handler that returns a value (in particular:
`try`-free bodies) in which cells `i` calls cells `< i` only, with the space of every cells and
reference given, calls of missing cells rewritten by `deadExpr` (`dead caller callee`: is `callee`
missing, and does `caller` spell it through an attribute path) and any assignment `alive` of which
cells exist - exactly what `Driver.Exec.World.env` builds from the harness' program description -
are `WF`. -/

def tableEnv (cells : CellId → Option Expr) (ar : CellId → Option Nat) (ids : List CellId)
    (cached allowNone : CellId → Bool) (cspace : CellId → Nat) (rspace : RefId → Nat)
    (refs : RefId → Option Val) (maxdepth : Nat)
    (dead : CellId → CellId → Option Bool := fun _ _ => none) (alive : CellId → Bool := fun _ => true) : Env where
  formula := fun n => match cells n.1 with
    | some e => formulaOf ar (scopeExpr (fun r => rspace r == cspace n.1) (deadExpr (dead n.1) e)) n.2
    | none => .raise (.user kName)
  cached := cached
  allowNone := allowNone
  refs := refs
  maxdepth := maxdepth
  observers := fun r => ids.filter (fun c => cspace c == rspace r)
  alive := alive
  siblings := fun c => ids.filter (fun c' => cspace c' == cspace c)

theorem tableEnv_wf_aux (cells : CellId → Option Expr) (ar : CellId → Option Nat) (ids : List CellId)
    (cached allowNone : CellId → Bool) (cspace : CellId → Nat) (rspace : RefId → Nat)
    (refs : RefId → Option Val) (maxdepth : Nat) (dead : CellId → CellId → Option Bool) (alive : CellId → Bool)
    (hids : ∀ i e, cells i = some e → i ∈ ids)
    (hbody : ∀ i e, cells i = some e → noCatch e = true ∧ callsBelowId i e = true) :
    WF (tableEnv cells ar ids cached allowNone cspace rspace refs maxdepth dead alive) idLt := by
  refine ⟨?_, ?_, ?_⟩
  · refine ranked_of_table
      (fun i => (cells i).map (fun e => scopeExpr (fun r => rspace r == cspace i) (deadExpr (dead i) e))) ar _ ?_ ?_
    · intro n
      simp only [tableEnv]
      cases cells n.1 <;> rfl
    · intro i e h
      cases hc : cells i with
      | none => simp [hc] at h
      | some e0 =>
        simp only [hc, Option.map_some, Option.some.injEq] at h
        subst h
        rw [(scope_facts _ i _).2.2]
        exact (dead_facts (dead i) (fun _ => true) i e0).2.2 (hbody i e0 hc).2
  · intro n
    simp only [tableEnv]
    cases hc : cells n.1 with
    | none => trivial
    | some e =>
      exact (formulaOf_pw (fun _ => True) (fun r => rspace r == cspace n.1) (fun _ _ => trivial) ar _ n.2
        (scope_noCatch _ _ ((dead_facts (dead n.1) (fun _ => true) n.1 e).2.1 (hbody n.1 e hc).1))
        (scope_facts _ n.1 _).1).1
  · intro n
    simp only [tableEnv]
    cases hc : cells n.1 with
    | none => trivial
    | some e =>
      refine (formulaOf_pw _ (fun r => rspace r == cspace n.1) ?_ ar _ n.2
        (scope_noCatch _ _ ((dead_facts (dead n.1) (fun _ => true) n.1 e).2.1 (hbody n.1 e hc).1))
        (scope_facts _ n.1 _).1).2
      intro r hr
      simp only [List.mem_filter]
      refine ⟨hids n.1 e hc, ?_⟩
      rw [beq_iff_eq] at hr ⊢
      exact hr.symm

end MxModel.C02
