import MxModel.Proofs.Registry
/-! The registered identities, exactly: what every operation does to the SET of registered models
(`ids`), in both directions, and the run-level statement "registered = handed out and not closed
since" (`Props/C19.registered_iff_open_handle`). -/
namespace MxModel.Registry
open MxModel.Names

theorem ids_moveKey_sub {ms : List (String × Model)} (old new : String) (i : Nat) :
    i ∈ ids (moveKey ms old new) → i ∈ ids ms := by
  unfold moveKey
  cases hl : lookupName ms old with
  | none => exact id
  | some m =>
    intro hi
    simp only [ids, List.map_append, List.mem_append, List.mem_map, List.mem_singleton] at hi ⊢
    rcases hi with ⟨e, he, rfl⟩ | ⟨e, rfl, rfl⟩
    · exact ⟨e, (mem_eraseName.mp he).1, rfl⟩
    · exact ⟨(old, m), lookupName_some hl, rfl⟩

theorem renamePlain_ids_iff {r : Reg} (h : RegInv r) (old new : String) (i : Nat) :
    i ∈ ids (renamePlain r old new).1.models ↔ i ∈ ids r.models := by
  refine ⟨?_, renamePlain_ids h old new i⟩
  unfold renamePlain
  split
  · exact id
  · split
    · exact id
    · exact ids_moveKey_sub old new i

theorem renameSamename_ids_iff {r : Reg} (h : RegInv r) (name : String) (i : Nat) :
    i ∈ ids (renameSamename r name).models ↔ i ∈ ids r.models := by
  unfold renameSamename
  have h' : RegInv { r with backupnamer := (getNext (keys r) name "_BAK" r.backupnamer).1 } := h
  exact renamePlain_ids_iff h' _ _ i

theorem freeName_ids_iff {r : Reg} (h : RegInv r) (name : String) (i : Nat) :
    i ∈ ids (freeName r name).models ↔ i ∈ ids r.models := by
  unfold freeName; split
  · exact renameSamename_ids_iff h name i
  · exact Iff.rfl

theorem freeName_nextId (r : Reg) (n : String) : (freeName r n).nextId = r.nextId := by
  unfold freeName; split
  · exact renameSamename_nextId r n
  · rfl

theorem register_ids_iff (r : Reg) (nm : String) (i : Nat) :
    i ∈ ids (register r nm).1.models ↔ i ∈ ids r.models ∨ i = r.nextId := by
  simp only [register, ids, List.map_append, List.mem_append, List.map_cons, List.map_nil,
    List.mem_singleton]

/-- `new_model`: the registered models afterwards are those registered before and the model that
was handed out (none when the name is refused) -/
theorem newModel_ids_iff (kw : List String) {r : Reg} (h : RegInv r) (name : Option String) (i : Nat) :
    i ∈ ids (newModel kw r name).1.models ↔ i ∈ ids r.models ∨ (newModel kw r name).2 = .ok i := by
  unfold newModel
  cases name with
  | none =>
    simp only [register_ids_iff]
    show i ∈ ids r.models ∨ i = r.nextId ↔ _
    constructor
    · rintro (h1 | h1)
      · exact Or.inl h1
      · exact Or.inr (by simp [register, autoName, h1])
    · rintro (h1 | h1)
      · exact Or.inl h1
      · right; simp [register, autoName] at h1; exact h1.symm
  | some n =>
    simp only []
    split
    · simp only [register_ids_iff]
      show i ∈ ids (freeName r n).models ∨ i = (freeName r n).nextId ↔ _
      rw [freeName_ids_iff h, freeName_nextId]
      constructor
      · rintro (h1 | h1)
        · exact Or.inl h1
        · exact Or.inr (by simp [register, autoName, freeName_nextId, h1])
      · rintro (h1 | h1)
        · exact Or.inl h1
        · right; simp [register, autoName, freeName_nextId] at h1; exact h1.symm
    · split
      · simp only [register_ids_iff]
        rw [freeName_ids_iff h, freeName_nextId]
        constructor
        · rintro (h1 | h1)
          · exact Or.inl h1
          · exact Or.inr (by simp [register, freeName_nextId, h1])
        · rintro (h1 | h1)
          · exact Or.inl h1
          · right; simp [register, freeName_nextId] at h1; exact h1.symm
      · rw [freeName_ids_iff h]
        constructor
        · exact Or.inl
        · rintro (h1 | h1)
          · exact h1
          · cases h1

/-- `rename` (accepted or refused, with or without `rename_old`) registers and drops nothing -/
theorem rename_ids_iff (kw : List String) {r : Reg} (h : RegInv r) (i : Nat) (new : String)
    (ro : Bool) (j : Nat) : j ∈ ids (rename kw r i new ro).1.models ↔ j ∈ ids r.models := by
  refine ⟨?_, rename_ids kw h i new ro j⟩
  unfold rename
  split
  · exact id
  · simp only []
    have h1 : RegInv (if ro = true then freeName r new else r) := by
      split
      · exact freeName_inv h new
      · exact h
    have hback : j ∈ ids (if ro = true then freeName r new else r).models → j ∈ ids r.models := by
      split
      · exact (freeName_ids_iff h new j).mp
      · exact id
    split
    · exact id
    · split
      · exact hback
      · intro hj; exact hback ((renamePlain_ids_iff h1 _ _ j).mp hj)

theorem newModel_ok_id (kw : List String) (r : Reg) (name : Option String) (i : Nat)
    (h : (newModel kw r name).2 = .ok i) : i = r.nextId := by
  unfold newModel at h
  cases name with
  | none => simp [register, autoName] at h; exact h.symm
  | some n =>
    simp only [] at h
    split at h
    · simp [register, autoName, freeName_nextId] at h; exact h.symm
    · split at h
      · simp [register, freeName_nextId] at h; exact h.symm
      · cases h

/-- `read_model`: the registered models afterwards are those registered before and the model that
was handed out (none when the read failed: the model it had created is closed again) -/
theorem readModel_ids_iff (kw : List String) {r : Reg} (h : RegInv r) (name : String) (f : Bool)
    (j : Nat) : j ∈ ids (readModel kw r name f).1.models ↔
      j ∈ ids r.models ∨ (readModel kw r name f).2 = .ok j := by
  have hlt : ∀ x, x ∈ ids r.models → x < r.nextId := by
    intro x hx
    simp only [ids, List.mem_map] at hx
    obtain ⟨e, he, rfl⟩ := hx
    exact h.idsLt e he
  unfold readModel
  have h1 := newModel_inv kw h none
  have hi1 := newModel_ids_iff kw h none
  have hid := newModel_ok_id kw r none
  generalize newModel kw r none = p at h1 hi1 hid
  obtain ⟨r1, res⟩ := p
  cases res with
  | error e =>
    simp only [] at hi1 ⊢
    rw [hi1 j]
  | ok i =>
    simp only [] at hi1 hid ⊢
    have hi := hid i rfl
    have h2 := rename_inv kw h1 i name true
    have hi2 := rename_ids_iff kw h1 i name true
    generalize rename kw r1 i name true = q at h2 hi2
    obtain ⟨r2, res2⟩ := q
    have closed_case : ∀ e, (j ∈ ids (close r2 i).1.models ↔
        j ∈ ids r.models ∨ (Except.error e : Except Rej Nat) = .ok j) := by
      intro e
      rw [close_ids h2 i j, hi2 j, hi1 j]
      constructor
      · rintro ⟨h3 | h3, hne⟩
        · exact Or.inl h3
        · exact absurd (by injection h3 with h4; exact h4.symm) hne
      · rintro (h3 | h3)
        · exact ⟨Or.inl h3, by have := hlt j h3; omega⟩
        · cases h3
    cases res2 with
    | error e => exact closed_case e
    | ok u =>
      simp only []
      split
      · exact closed_case _
      · rw [hi2 j, hi1 j]

/-- what the caller is handed by an operation: the identity of the model created, if any -/
def handed (kw : List String) (r : Reg) : Op → Option Nat
  | .new n => match (newModel kw r n).2 with
    | .ok i => some i
    | .error _ => none
  | .read n f => match (readModel kw r n f).2 with
    | .ok i => some i
    | .error _ => none
  | _ => none

/-- is `op` the caller's `close` of model `j`? -/
def closes : Op → Nat → Bool
  | .close i, j => i == j
  | _, _ => false

/-- **one operation, exactly**: afterwards a model is registered iff it was registered before and
the operation is not its own `close`, or it is the model the operation handed out -/
theorem step_ids_iff (kw : List String) {r : Reg} (h : RegInv r) (op : Op) (j : Nat) :
    j ∈ ids (step kw r op).models ↔
      (j ∈ ids r.models ∧ closes op j = false) ∨ handed kw r op = some j := by
  cases op with
  | new n =>
    simp only [step, closes, handed, and_true]
    rw [newModel_ids_iff kw h n j]
    cases hres : (newModel kw r n).2 with
    | ok i => simp
    | error e => simp
  | rename i n ro =>
    simp only [step, closes, handed, and_true]
    rw [rename_ids_iff kw h i n ro j]
    simp
  | close i =>
    simp only [step, closes, handed, beq_eq_false_iff_ne, ne_eq]
    rw [close_ids h i j]
    constructor
    · rintro ⟨a, b⟩; exact Or.inl ⟨a, fun e => b e.symm⟩
    · rintro (⟨a, b⟩ | a)
      · exact ⟨a, fun e => b e.symm⟩
      · cases a
  | read n f =>
    simp only [step, closes, handed, and_true]
    rw [readModel_ids_iff kw h n f j]
    cases hres : (readModel kw r n f).2 with
    | ok i => simp
    | error e => simp

/-- the models a caller holds open after a history, computed from the caller's side alone (the
handles it was given, minus those it closed afterwards); `acc`: held at the start -/
def openHandles (kw : List String) : Reg → List Op → List Nat → List Nat
  | _, [], acc => acc
  | r, op :: rest, acc =>
    openHandles kw (step kw r op) rest
      ((acc.filter (fun j => !closes op j)) ++ (match handed kw r op with
        | some i => [i]
        | none => []))

theorem run_ids_iff (kw : List String) : ∀ (ops : List Op) (r : Reg) (acc : List Nat), RegInv r →
    (∀ j, j ∈ ids r.models ↔ j ∈ acc) →
    ∀ j, j ∈ ids (run kw r ops).models ↔ j ∈ openHandles kw r ops acc := by
  intro ops
  induction ops with
  | nil => intro r acc _ hacc j; exact hacc j
  | cons op rest ih =>
    intro r acc h hacc j
    have hstep : RegInv (step kw r op) := by
      cases op with
      | new n => exact newModel_inv kw h n
      | rename i n ro => exact rename_inv kw h i n ro
      | close i => exact close_inv h i
      | read n f => exact readModel_inv kw h n f
    show j ∈ ids (run kw (step kw r op) rest).models ↔ _
    apply ih (step kw r op) _ hstep
    intro x
    rw [step_ids_iff kw h op x, hacc x]
    simp only [List.mem_append, List.mem_filter, Bool.not_eq_true']
    cases handed kw r op with
    | none => simp
    | some i =>
      simp only [List.mem_singleton]
      constructor
      · rintro (a | a)
        · exact Or.inl a
        · injection a with a; exact Or.inr a.symm
      · rintro (a | a)
        · exact Or.inl a
        · exact Or.inr (by rw [a])

/-! ### the displaced holder of a name gets a backup name -/

theorem mem_keys_of_lookupName {ms : List (String × Model)} {n : String} {m : Model}
    (h : lookupName ms n = some m) : n ∈ mkeys ms := by
  simp only [mkeys, List.mem_map]
  exact ⟨(n, m), lookupName_some h, rfl⟩

/-- `_rename_samename(name)`: the model registered under `name` is afterwards registered under
`name_BAK<k>` for some `k`, with that name as its own -/
theorem renameSamename_entry {r : Reg} (name : String) (m : Model) (hk : lookupName r.models name = some m) :
    ∃ k : Nat, (name ++ "_BAK" ++ toString k, { id := m.id, name := name ++ "_BAK" ++ toString k }) ∈
      (renameSamename r name).models := by
  have hin : name ∈ keys r := mem_keys_of_lookupName hk
  unfold renameSamename
  have hfresh := getNext_fresh (keys r) name "_BAK" r.backupnamer
  have hcand : (getNext (keys r) name "_BAK" r.backupnamer).2 =
      cand name "_BAK" (getNext (keys r) name "_BAK" r.backupnamer).1 :=
    (nextName_spec (keys r) name "_BAK" (keys r).length r.backupnamer).1
  generalize getNext (keys r) name "_BAK" r.backupnamer = p at hfresh hcand
  obtain ⟨k, bak⟩ := p
  simp only [] at hfresh hcand ⊢
  have hne : bak ≠ name := fun hc => hfresh (hc ▸ hin)
  refine ⟨k, ?_⟩
  unfold renamePlain
  simp only [hne, if_false]
  have : (keys { r with backupnamer := k }).contains bak = false := by
    simpa [keys] using hfresh
  simp only [this, Bool.false_eq_true, if_false, moveKey, hk]
  rw [hcand]
  simp [cand]

/-- creating a model under a name in use: the previous holder is registered under `name_BAK<k>` -/
theorem newModel_displaced (kw : List String) (r : Reg) (n : String) (m : Model)
    (hk : lookupName r.models n = some m) :
    ∃ k : Nat, (n ++ "_BAK" ++ toString k, { id := m.id, name := n ++ "_BAK" ++ toString k }) ∈
      (newModel kw r (some n)).1.models := by
  have hin : (keys r).contains n = true := by
    have : n ∈ keys r := mem_keys_of_lookupName hk
    simpa using this
  obtain ⟨k, hmem⟩ := renameSamename_entry n m hk
  refine ⟨k, ?_⟩
  have hfree : freeName r n = renameSamename r n := by unfold freeName; rw [if_pos hin]
  unfold newModel
  simp only [hfree]
  split
  · simp only [register, autoName]; exact List.mem_append_left _ hmem
  · split
    · simp only [register]; exact List.mem_append_left _ hmem
    · exact hmem

end MxModel.Registry
