import MxModel.Struct.MechNamespace
import MxModel.Proofs.StructMechNames
/-!
# The namespace chain of the mechanism model (C12)

`St.namespaceIn` in the order the code has now is `[cells, own_refs, sys_refs, global_refs, spaces]`;
`chain_resolution` is the closed form of the first-match lookup through it (every state), and in the
states the mechanism reaches (`InvN`) the maps other than `global_refs` are pairwise disjoint and hold
valid names only (the special names aside).
-/
namespace MxModel.SM
open MxModel.Struct

theorem find_map_members (ms : Members) (f : Member → Denot) (n : String) :
    NMap.find (ms.map (fun e => (e.1, f e.2))) n = (mget ms n).map f := by
  induction ms with
  | nil => rfl
  | cons e ms ih =>
    simp only [List.map_cons, NMap.find, mget_cons]
    by_cases h : e.1 = n
    · simp [h]
    · simp [h, ih]

theorem find_map_const (l : List String) (d : Denot) (n : String) :
    NMap.find (l.map (fun x => (x, d))) n = if n ∈ l then some d else none := by
  induction l with
  | nil => rfl
  | cons x l ih =>
    simp only [List.map_cons, NMap.find, List.mem_cons]
    by_cases h : x = n
    · simp [h]
    · have h' : ¬ n = x := fun e => h e.symm
      simp [h, h', ih]

theorem members_eq_cont (st : St) (a : Attr) (q : Path) : st.members a q = st.cont a q := rfl

theorem mem_eq_members (st : St) (a : Attr) (q : Path) (n : String) : st.mem a q n = mget (st.members a q) n :=
  St.mem_eq st a q n

/-- the chain in the order the code has now -/
def St.codeChain (st : St) (q : Path) : List (String × NMap Denot) :=
  [("cells", (st.members .cells q).map (fun e => (e.1, Denot.cells e.2))),
   ("own_refs", (st.members .refs q).map (fun e => (e.1, Denot.ownRef e.2))),
   ("sys_refs", sysNames.map (fun n => (n, Denot.sys))),
   ("global_refs", st.globals.map (fun n => (n, Denot.global))),
   ("spaces", (st.childNames q).map (fun n => (n, Denot.child)))]

theorem namespaceIn_code (st : St) (q : Path) :
    st.namespaceIn ["cells", "refs", "spaces"] ["own_refs", "sys_refs", "global_refs"] q = st.codeChain q := by
  simp [St.namespaceIn, St.nsMaps, St.refMaps, St.codeChain]

/-- **closed form of the lookup**, in every state: cells, then the space's own references, then the special
names, then the model-level references, then the child spaces -/
theorem chain_resolution (st : St) (q : Path) (n : String) :
    chainFind (st.codeChain q) n =
      match st.mem .cells q n with
      | some m => some ("cells", .cells m)
      | none =>
        match st.mem .refs q n with
        | some m => some ("own_refs", .ownRef m)
        | none =>
          if n ∈ sysNames then some ("sys_refs", .sys)
          else if n ∈ st.globals then some ("global_refs", .global)
          else if n ∈ st.childNames q then some ("spaces", .child)
          else none := by
  simp only [St.codeChain, chainFind, find_map_members, find_map_const, mem_eq_members]
  cases mget (st.members .cells q) n with
  | some m => rfl
  | none =>
    cases mget (st.members .refs q) n with
    | some m => rfl
    | none =>
      by_cases h1 : n ∈ sysNames
      · simp [h1]
      · by_cases h2 : n ∈ st.globals
        · simp [h1, h2]
        · by_cases h3 : n ∈ st.childNames q <;> simp [h1, h2, h3]

/-- visible iff in one of the five containers (every state) -/
theorem chain_visible_iff (st : St) (q : Path) (n : String) :
    (chainFind (st.codeChain q) n).isSome = true ↔
      ((st.mem .cells q n).isSome = true ∨ (st.mem .refs q n).isSome = true ∨ n ∈ sysNames ∨
        n ∈ st.globals ∨ n ∈ st.childNames q) := by
  rw [chain_resolution]
  cases st.mem .cells q n with
  | some m => simp
  | none =>
    cases st.mem .refs q n with
    | some m => simp
    | none =>
      by_cases h1 : n ∈ sysNames
      · simp [h1]
      · by_cases h2 : n ∈ st.globals
        · simp [h1, h2]
        · by_cases h3 : n ∈ st.childNames q <;> simp [h1, h2, h3]

/-- the mechanism's own name test is the chain lookup (for every name but the three special ones, which
`kindOf` leaves out: they are no valid names, so no request for them gets as far as `kindOf`) -/
theorem kindOf_eq_chain (st : St) (q : Path) (n : String) (hs : n ∉ sysNames) :
    st.kindOf q n = (chainFind (st.codeChain q) n).map (fun r => r.2.kind) := by
  rw [chain_resolution]
  unfold St.kindOf
  cases st.mem .cells q n with
  | some m => rfl
  | none =>
    cases st.mem .refs q n with
    | some m => rfl
    | none =>
      by_cases h2 : n ∈ st.globals
      · simp [hs, h2, Denot.kind]
      · by_cases h3 : n ∈ st.childNames q <;> simp [hs, h2, h3, Denot.kind]

/-- a special name is no valid name (it starts with an underscore) -/
theorem sysNames_invalid (kw : List String) (n : String) (h : n ∈ sysNames) : Names.isValidName kw n = false := by
  simp only [sysNames, List.mem_cons, List.mem_nil_iff, or_false] at h
  rcases h with rfl | rfl | rfl <;> simp [Names.isValidName]

/-- a child name of a reachable state is a valid name -/
theorem NamesOK.child {kw : List String} {st : St} (hn : NamesOK kw st) (q : Path) (n : String)
    (h : n ∈ st.childNames q) : Names.isValidName kw n = true :=
  hn.ids (q ++ [n]) ((mem_childNames st q n).mp h) n (by simp)

/-- **every visible name is a valid name, one of the three special names, or a model-level reference**
(states with the invariant).  The third case cannot be dropped: `model.name = value` tests no name
(`ModelImpl.set_attr`), and a model-level reference is visible in the namespace of every space. -/
theorem visible_valid {kw : List String} {st : St} (h : InvN kw st) (q : Path) (n : String)
    (hv : (chainFind (st.codeChain q) n).isSome = true) :
    Names.isValidName kw n = true ∨ n ∈ sysNames ∨ n ∈ st.globals := by
  rcases (chain_visible_iff st q n).mp hv with hc | hr | hs | hg | hch
  · exact Or.inl (h.names.mems h.toInv .cells q n hc)
  · exact Or.inl (h.names.mems h.toInv .refs q n hr)
  · exact Or.inr (Or.inl hs)
  · exact Or.inr (Or.inr hg)
  · exact Or.inl (h.names.child q n hch)

/-- every model-level reference is visible in the namespace of every space, whatever its name -/
theorem global_visible (st : St) (q : Path) (n : String) (hg : n ∈ st.globals) :
    (chainFind (st.codeChain q) n).isSome = true :=
  (chain_visible_iff st q n).mpr (Or.inr (Or.inr (Or.inr (Or.inl hg))))

/-- the four space-level maps are pairwise disjoint in a state with the invariant.  (A model-level
reference MAY bear a special name - `model._self = 1` is accepted; the special name wins in every space,
`chain_other_matches`.) -/
theorem space_level_disjoint {kw : List String} {st : St} (h : InvN kw st) (q : Path) (n : String) :
    ¬ ((st.mem .cells q n).isSome = true ∧ (st.mem .refs q n).isSome = true) ∧
    ¬ ((st.mem .cells q n).isSome = true ∧ n ∈ sysNames) ∧
    ¬ ((st.mem .refs q n).isSome = true ∧ n ∈ sysNames) ∧
    ¬ ((st.mem .cells q n).isSome = true ∧ n ∈ st.childNames q) ∧
    ¬ ((st.mem .refs q n).isSome = true ∧ n ∈ st.childNames q) ∧
    ¬ (n ∈ sysNames ∧ n ∈ st.childNames q) := by
  have hd := h.disj
  refine ⟨?_, ?_, ?_, ?_, ?_, ?_⟩
  · rintro ⟨h1, h2⟩; rw [hd.cr q n h1] at h2; cases h2
  · rintro ⟨h1, h2⟩
    have := h.names.mems h.toInv .cells q n h1
    rw [sysNames_invalid kw n h2] at this; cases this
  · rintro ⟨h1, h2⟩
    have := h.names.mems h.toInv .refs q n h1
    rw [sysNames_invalid kw n h2] at this; cases this
  · rintro ⟨h1, h2⟩; rw [(hd.child q n h2).1] at h1; cases h1
  · rintro ⟨h1, h2⟩; rw [(hd.child q n h2).2] at h1; cases h1
  · rintro ⟨h1, h2⟩
    have := h.names.child q n h2
    rw [sysNames_invalid kw n h1] at this; cases this

/-- which map of the chain has the name -/
theorem codeChain_has (st : St) (q : Path) (n : String) (e : String × NMap Denot) (he : e ∈ st.codeChain q) :
    (e.2.find n).isSome = true ↔
      ((e.1 = "cells" ∧ (st.mem .cells q n).isSome = true) ∨ (e.1 = "own_refs" ∧ (st.mem .refs q n).isSome = true) ∨
       (e.1 = "sys_refs" ∧ n ∈ sysNames) ∨ (e.1 = "global_refs" ∧ n ∈ st.globals) ∨
       (e.1 = "spaces" ∧ n ∈ st.childNames q)) := by
  simp only [St.codeChain, List.mem_cons, List.mem_nil_iff, or_false] at he
  rcases he with rfl | rfl | rfl | rfl | rfl
  · simp only [find_map_members, ← mem_eq_members]
    cases st.mem .cells q n <;> simp
  · simp only [find_map_members, ← mem_eq_members]
    cases st.mem .refs q n <;> simp
  · simp only [find_map_const]
    by_cases h : n ∈ sysNames <;> simp [h]
  · simp only [find_map_const]
    by_cases h : n ∈ st.globals <;> simp [h]
  · simp only [find_map_const]
    by_cases h : n ∈ st.childNames q <;> simp [h]

/-- **the only double meanings** a name can have in a state with the invariant: besides the map the
lookup stops at, the name is found only (a) in the model-level references, when the lookup stopped at a
cells, an own reference or a special name of the space (the space-level name wins), or (b) in the child
spaces, when the lookup stopped at a model-level reference (the child space loses) -/
theorem chain_other_matches {kw : List String} {st : St} (h : InvN kw st) (q : Path) (n : String)
    (mapName : String) (d : Denot) (hf : chainFind (st.codeChain q) n = some (mapName, d)) :
    ∀ e ∈ st.codeChain q, e.1 ≠ mapName → (e.2.find n).isSome = true →
      (e.1 = "global_refs" ∧ (mapName = "cells" ∨ mapName = "own_refs" ∨ mapName = "sys_refs")) ∨
      (e.1 = "spaces" ∧ mapName = "global_refs") := by
  obtain ⟨d1, d2, d3, d4, d5, d6⟩ := space_level_disjoint h q n
  intro e he hne hsome
  rw [codeChain_has st q n e he] at hsome
  rw [chain_resolution] at hf
  cases hc : st.mem .cells q n with
  | some m =>
    rw [hc] at hf d1 d2 d4 hsome
    simp only [Option.some.injEq, Prod.mk.injEq] at hf
    obtain ⟨rfl, _⟩ := hf
    simp only [Option.isSome_some, true_and] at d1 d2 d4
    rcases hsome with ⟨h1, _⟩ | ⟨_, h2⟩ | ⟨_, h2⟩ | ⟨h1, _⟩ | ⟨_, h2⟩
    · exact absurd h1 hne
    · exact absurd h2 d1
    · exact absurd h2 d2
    · exact Or.inl ⟨h1, Or.inl rfl⟩
    · exact absurd h2 d4
  | none =>
    rw [hc] at hf hsome
    cases hr : st.mem .refs q n with
    | some m =>
      rw [hr] at hf d3 d5 hsome
      simp only [Option.some.injEq, Prod.mk.injEq] at hf
      obtain ⟨rfl, _⟩ := hf
      simp only [Option.isSome_some, true_and] at d3 d5
      rcases hsome with ⟨_, h2⟩ | ⟨h1, _⟩ | ⟨_, h2⟩ | ⟨h1, _⟩ | ⟨_, h2⟩
      · cases h2
      · exact absurd h1 hne
      · exact absurd h2 d3
      · exact Or.inl ⟨h1, Or.inr (Or.inl rfl)⟩
      · exact absurd h2 d5
    | none =>
      rw [hr] at hf hsome
      by_cases hs : n ∈ sysNames
      · simp only [hs, if_true, Option.some.injEq, Prod.mk.injEq] at hf
        obtain ⟨rfl, _⟩ := hf
        rcases hsome with ⟨_, h2⟩ | ⟨_, h2⟩ | ⟨h1, _⟩ | ⟨h1, _⟩ | ⟨_, h2⟩
        · cases h2
        · cases h2
        · exact absurd h1 hne
        · exact Or.inl ⟨h1, Or.inr (Or.inr rfl)⟩
        · exact absurd ⟨hs, h2⟩ d6
      · by_cases hg : n ∈ st.globals
        · simp only [hs, hg, if_true, if_false, Option.some.injEq, Prod.mk.injEq] at hf
          obtain ⟨rfl, _⟩ := hf
          rcases hsome with ⟨_, h2⟩ | ⟨_, h2⟩ | ⟨_, h2⟩ | ⟨h1, _⟩ | ⟨h1, _⟩
          · cases h2
          · cases h2
          · exact absurd h2 hs
          · exact absurd h1 hne
          · exact Or.inr ⟨h1, rfl⟩
        · by_cases hk : n ∈ st.childNames q
          · simp only [hs, hg, hk, if_true, if_false, Option.some.injEq, Prod.mk.injEq] at hf
            obtain ⟨rfl, _⟩ := hf
            rcases hsome with ⟨_, h2⟩ | ⟨_, h2⟩ | ⟨_, h2⟩ | ⟨_, h2⟩ | ⟨h1, _⟩
            · cases h2
            · cases h2
            · exact absurd h2 hs
            · exact absurd h2 hg
            · exact absurd h1 hne
          · simp [hs, hg, hk] at hf

end MxModel.SM
