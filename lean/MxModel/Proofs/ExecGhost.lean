import MxModel.Proofs.ExecBasic
/-!
# The depth-limit flag `hit` is a ghost: nothing the mechanism does depends on it

`St.hit` is set by `runN 0` and read by no function of `Exec/Mech.lean`.  Formally: every function
of the mechanism COMMUTES with raising the flag (`St.orHit`): started with the flag up, it returns
the same result and the same state, flag up.  Hence an evaluation from a state in which an earlier
evaluation hit the limit behaves exactly like the evaluation from the same state with the flag
lowered (`St.clearHit`) – which is what lets the theorems that speak about "the limit was not hit"
speak about THIS evaluation only.
-/
namespace MxModel.Exec

/-- raise the ghost flag (`b = true`) or leave it (`b = false`) -/
def St.orHit (s : St) (b : Bool) : St := { s with hit := b || s.hit }

/-- lower the ghost flag: "start counting limit hits from here" -/
def St.clearHit (s : St) : St := { s with hit := false }

@[simp] theorem St.orHit_false (s : St) : s.orHit false = s := rfl

theorem St.eq_clearHit_orHit (s : St) : s = s.clearHit.orHit s.hit := by
  cases s; simp [St.orHit, St.clearHit]

@[simp] theorem St.orHit_hit (s : St) (b : Bool) : (s.orHit b).hit = (b || s.hit) := rfl
@[simp] theorem St.clearHit_hit (s : St) : s.clearHit.hit = false := rfl
@[simp] theorem St.clearHit_data (s : St) : s.clearHit.data = s.data := rfl
@[simp] theorem St.clearHit_inputs (s : St) : s.clearHit.inputs = s.inputs := rfl
@[simp] theorem St.orHit_data (s : St) (b : Bool) : (s.orHit b).data = s.data := rfl
@[simp] theorem St.orHit_inputs (s : St) (b : Bool) : (s.orHit b).inputs = s.inputs := rfl

theorem St.clearHit_of_hit_false (s : St) (h : s.hit = false) : s.clearHit = s := by
  cases s; simp_all [St.clearHit]

theorem St.orHit_hit_false {s : St} {b : Bool} (h : (s.orHit b).hit = false) : s.hit = false := by
  simp only [St.orHit_hit, Bool.or_eq_false_iff] at h; exact h.2

/-- `s` and `s'` differ at most in the ghost flag -/
def UpToHit (s s' : St) : Prop := s'.clearHit = s.clearHit

theorem upToHit_orHit (s : St) (b : Bool) : UpToHit s (s.orHit b) := rfl

/-! ### the primitives commute with `orHit` -/

variable (b : Bool)

theorem addNode_orHit (s : St) (a : GNode) : (s.orHit b).addNode a = (s.addNode a).orHit b := by
  unfold St.addNode
  show (if s.gn.contains a then s.orHit b else _) = _
  split <;> rfl

theorem addEdge_orHit (s : St) (a c : GNode) : (s.orHit b).addEdge a c = (s.addEdge a c).orHit b := by
  unfold St.addEdge
  simp only [addNode_orHit]
  show (if ((s.addNode a).addNode c).ge.contains (a, c) then _ else _) = _
  split <;> rfl

theorem edgeTarget_orHit (s : St) : (s.orHit b).edgeTarget = s.edgeTarget := rfl

theorem push_orHit (env : Env) (s : St) (n : Node) : (s.orHit b).push env n = (s.push env n).orHit b := rfl

theorem hitEdge_orHit (s : St) (n : Node) : (s.orHit b).hitEdge n = (s.hitEdge n).orHit b := by
  unfold St.hitEdge
  rw [edgeTarget_orHit]
  split
  · exact addEdge_orHit b s _ _
  · rfl

theorem noteRead_orHit (s : St) (a : Bool) (r : RefId) : (s.orHit b).noteRead a r = (s.noteRead a r).orHit b := by
  unfold St.noteRead
  show (if (a && decide (s.stack.length > 0)) = true then _ else _) = _
  split <;> rfl

theorem newExc_orHit (s : St) : (s.orHit b).newExc = s.newExc.orHit b := rfl

theorem popEdge_orHit (env : Env) (s : St) (n : Node) : (s.orHit b).popEdge env n = (s.popEdge env n).orHit b := by
  unfold St.popEdge
  rw [edgeTarget_orHit]
  split
  · exact addEdge_orHit b s _ _
  · split
    · exact addNode_orHit b s _
    · rfl

theorem drainRefs_orHit (env : Env) (s : St) (n : Node) :
    (s.orHit b).drainRefs env n = (s.drainRefs env n).orHit b := by
  unfold St.drainRefs
  split
  · rfl
  · show (if s.stack.length > 0 then _ else _) = _
    split <;> rfl

theorem pop_orHit (env : Env) (s : St) (n : Node) : (s.orHit b).pop env n = (s.pop env n).orHit b := by
  unfold St.pop
  have : (s.orHit b).dropFrame = s.dropFrame.orHit b := rfl
  rw [this, popEdge_orHit, drainRefs_orHit]

theorem rollback_orHit (s : St) (n : Node) : (s.orHit b).rollback n = (s.rollback n).orHit b := rfl

theorem keepExc_orHit (s : St) (p : Res × St) :
    keepExc (s.orHit b) (p.1, p.2.orHit b) = ((keepExc s p).1, (keepExc s p).2.orHit b) := by
  obtain ⟨r, s'⟩ := p
  cases r <;> rfl

/-! ### the evaluator commutes with `orHit` -/

/-- an evaluator that neither reads nor lowers the flag -/
def HitBlind (f : Node → St → Res × St) : Prop :=
  ∀ n s b, f n (s.orHit b) = ((f n s).1, (f n s).2.orHit b)

theorem runBody_orHit (env : Env) (f : Node → St → Res × St) (hf : HitBlind f) :
    ∀ (p : Prog) (s : St) (b : Bool),
      runBody env f p (s.orHit b) = ((runBody env f p s).1, (runBody env f p s).2.orHit b) := by
  intro p
  induction p with
  | ret v => intro s b; rfl
  | raise e => intro s b; rfl
  | reraise e => intro s b; rfl
  | read a r k ih =>
    intro s b
    simp only [runBody]
    rw [noteRead_orHit]
    exact ih _ _ b
  | call n k ih =>
    intro s b
    simp only [runBody]
    rw [hf n s b]
    exact ih _ _ b

theorem evalNode_orHit (env : Env) (ef : Node → St → Res × St) (hef : HitBlind ef) :
    HitBlind (evalNode env ef) := by
  intro n s b
  unfold evalNode
  split
  · split
    · simp only [St.orHit_data]
      cases hl : lookup s.data n with
      | some v => simp only [hitEdge_orHit]
      | none => simp only []; rw [hef n s b]; exact keepExc_orHit b s _
    · rw [hef n s b]; exact keepExc_orHit b s _
  · rfl

theorem runN_orHit (env : Env) : ∀ d, HitBlind (runN env d) := by
  intro d
  induction d with
  | zero =>
    intro n s b
    simp only [runN, St.newExc, St.orHit, Bool.or_true]
  | succ d ih =>
    intro n s b
    simp only [runN]
    rw [push_orHit, runBody_orHit env _ (evalNode_orHit env _ ih)]
    generalize runBody env (evalNode env (runN env d)) (env.formula n) (s.push env n) = p
    obtain ⟨r, s1⟩ := p
    cases r with
    | err e => simp only [rollback_orHit]
    | ok v =>
      simp only []
      split
      · split
        · simp only [newExc_orHit, rollback_orHit]
        · have : ({ s1.orHit b with data := insert (s1.orHit b).data n v } : St) =
              ({ s1 with data := insert s1.data n v } : St).orHit b := rfl
          rw [this, pop_orHit]
      · rw [pop_orHit]

/-- **the flag is a ghost for a top-level call**: same result, same state, flag raised as before -/
theorem evalTop_orHit (env : Env) (n : Node) (s : St) (b : Bool) :
    evalTop env n (s.orHit b) = ((evalTop env n s).1, (evalTop env n s).2.orHit b) := by
  unfold evalTop
  simp only [St.orHit_data]
  cases hl : (if env.cached n.1 = true then lookup s.data n else none) with
  | some v => rfl
  | none =>
    simp only []
    rw [runN_orHit env _ n s b]
    generalize runN env (env.maxdepth + 1) n s = p
    obtain ⟨r, s1⟩ := p
    cases r <;> rfl

/-- what an evaluation does from `s` is what it does from `s` with the flag lowered -/
theorem evalTop_clearHit (env : Env) (n : Node) (s : St) :
    evalTop env n s = ((evalTop env n s.clearHit).1, (evalTop env n s.clearHit).2.orHit s.hit) := by
  conv => lhs; rw [s.eq_clearHit_orHit]
  exact evalTop_orHit env n s.clearHit s.hit

theorem evalTop_fst_clearHit (env : Env) (n : Node) (s : St) :
    (evalTop env n s.clearHit).1 = (evalTop env n s).1 := by
  rw [evalTop_clearHit env n s]

theorem evalTop_data_clearHit (env : Env) (n : Node) (s : St) :
    (evalTop env n s.clearHit).2.data = (evalTop env n s).2.data ∧
    (evalTop env n s.clearHit).2.inputs = (evalTop env n s).2.inputs := by
  rw [evalTop_clearHit env n s]; exact ⟨rfl, rfl⟩

/-- the flag after a call = the flag before, or the limit was hit in this call -/
theorem evalTop_hit (env : Env) (n : Node) (s : St) :
    (evalTop env n s).2.hit = (s.hit || (evalTop env n s.clearHit).2.hit) := by
  rw [evalTop_clearHit env n s]; rfl

/-! ### the edits commute with `orHit` -/

theorem foldl_orHit {α} (g : St → α → St) (hg : ∀ s x, g (s.orHit b) x = (g s x).orHit b) :
    ∀ (L : List α) (s : St), L.foldl g (s.orHit b) = (L.foldl g s).orHit b := by
  intro L
  induction L with
  | nil => intro s; rfl
  | cons x rest ih => intro s; simp only [List.foldl]; rw [hg, ih]

theorem clearWithDescs_orHit (s : St) (n : Node) :
    (s.orHit b).clearWithDescs n = (s.clearWithDescs n).orHit b := by
  unfold St.clearWithDescs
  show (if s.gn.contains (.elem n) then _ else _) = _
  split <;> rfl

theorem clearValueAt_orHit (s : St) (n : Node) (ci : Bool) :
    (s.orHit b).clearValueAt n ci = (s.clearValueAt n ci).orHit b := by
  unfold St.clearValueAt
  show (if (lookup s.data n).isSome then (if ci || !s.inputs.contains n then _ else _) else _) = _
  split
  · split
    · exact clearWithDescs_orHit b s n
    · rfl
  · rfl

theorem clearAllValues_orHit (s : St) (c : CellId) (ci : Bool) :
    (s.orHit b).clearAllValues c ci = (s.clearAllValues c ci).orHit b := by
  unfold St.clearAllValues
  exact foldl_orHit b _ (fun s x => clearValueAt_orHit b s x ci) _ s

theorem clearObj_orHit (s : St) (c : CellId) : (s.orHit b).clearObj c = (s.clearObj c).orHit b := rfl

theorem clearAttrReferrers_orHit (s : St) (r : RefId) :
    (s.orHit b).clearAttrReferrers r = (s.clearAttrReferrers r).orHit b := by
  unfold St.clearAttrReferrers
  exact foldl_orHit b
    (fun s n => if s.gn.contains (.elem n) then
        ((s.removeNodes (s.descsWith (.elem n))).rgRemoveReferred (elemsOf (s.descsWith (.elem n)))).dropValues
          (elemsOf (s.descsWith (.elem n)))
      else s)
    (by intro s n; show (if s.gn.contains (.elem n) then _ else _) = _; split <;> rfl)
    ((s.rg.filter (fun e => e.1 == r)).map (·.2))
    { s with rg := s.rg.filter (fun e =>
        e.1 != r && !((s.rg.filter (fun e => e.1 == r)).map (·.2)).contains e.2) }

theorem onNamespaceChange_orHit (env : Env) (s : St) (c : CellId) :
    (s.orHit b).onNamespaceChange env c = (s.onNamespaceChange env c).orHit b := by
  unfold St.onNamespaceChange
  split
  · exact clearAllValues_orHit b s c false
  · exact clearObj_orHit b s c

theorem notifyAll_orHit (env : Env) (s : St) (L : List CellId) :
    (s.orHit b).notifyAll env L = (s.notifyAll env L).orHit b :=
  foldl_orHit b _ (fun s c => onNamespaceChange_orHit b env s c) L s

theorem notifyObservers_orHit (env : Env) (s : St) (r : RefId) :
    (s.orHit b).notifyObservers env r = (s.notifyObservers env r).orHit b :=
  foldl_orHit b _ (fun s c => onNamespaceChange_orHit b env s c) _ s

theorem delRef_orHit (env : Env) (s : St) (r : RefId) : (s.orHit b).delRef env r = (s.delRef env r).orHit b := by
  unfold St.delRef; rw [notifyObservers_orHit, clearAttrReferrers_orHit]

theorem setRef_orHit (env : Env) (s : St) (r : RefId) : (s.orHit b).setRef env r = (s.setRef env r).orHit b := by
  unfold St.setRef St.changeRef St.newRef
  split
  · rw [delRef_orHit, notifyObservers_orHit, clearAttrReferrers_orHit]
  · exact notifyObservers_orHit b env s r

theorem setFormula_orHit (s : St) (c : CellId) : (s.orHit b).setFormula c = (s.setFormula c).orHit b := rfl

theorem delCell_orHit (env : Env) (s : St) (c : CellId) : (s.orHit b).delCell env c = (s.delCell env c).orHit b := by
  unfold St.delCell St.notifySiblings; rw [clearObj_orHit, notifyAll_orHit]

theorem newCell_orHit (env : Env) (s : St) (c : CellId) : (s.orHit b).newCell env c = (s.newCell env c).orHit b := by
  unfold St.newCell St.notifySiblings; rw [notifyAll_orHit]

theorem setValue_orHit (env : Env) (s : St) (n : Node) (v : Val) :
    (s.orHit b).setValue env n v = (((s.setValue env n v).1).orHit b, (s.setValue env n v).2) := by
  unfold St.setValue
  split
  · rfl
  · simp only [clearValueAt_orHit]
    have : ({ (s.clearValueAt n true).orHit b with data := insert ((s.clearValueAt n true).orHit b).data n v } : St) =
        ({ s.clearValueAt n true with data := insert (s.clearValueAt n true).data n v } : St).orHit b := rfl
    rw [this, addNode_orHit]
    generalize ({ s.clearValueAt n true with data := insert (s.clearValueAt n true).data n v } : St).addNode (.elem n) = s3
    show (({ s3.orHit b with inputs := if s3.inputs.contains n then s3.inputs else s3.inputs ++ [n] } : St), _) = _
    rfl

end MxModel.Exec
