import MxModel.Kernels.RelativeHist
import MxModel.Proofs.Relative
import MxModel.Proofs.StructMechC3
/-!
# References under edit histories (C10): the invariant of `Kernels/RelativeHist.lean`

1. `get_relative` reads the linearisation function only at the roots its loop visits (`queried`), which
   for clean names are non-empty prefixes of the sub space (`queried_prefix`);
2. the object a derived reference is bound to does not depend on which objects exist, except that a
   missing counterpart gives a null object (`reinherit_upToNull`);
3. the invariant `RInv` and its preservation by every operation.
-/
namespace MxModel.RelHist
open MxModel.Relative

/-! ## 1. what `get_relative` reads -/

/-- the sub-space roots the loop of `get_relative` visits -/
def relPath : Path → List String → List Path
  | sr, [] => [sr]
  | sr, n :: rest => sr :: relPath (extP sr n) rest

theorem relLoop_congr (m1 m2 : Path → List Path) : ∀ (t : List String) (sr br : Path),
    (∀ x ∈ relPath sr t, m1 x = m2 x) → relLoop m1 sr br t = relLoop m2 sr br t
  | [], sr, br, h => by simp only [relLoop, h sr (by simp [relPath])]
  | n :: rest, sr, br, h => by
    simp only [relLoop, h sr (by simp [relPath])]
    rw [relLoop_congr m1 m2 rest (extP sr n) (extP br n) (fun x hx => h x (by simp [relPath, hx]))]

def queried (q D : Path) : List Path := relPath (trimRight q (descList q D).length) (descList q D)

theorem getRelative_congr (m1 m2 : Path → List Path) (q D v : Path) (h : ∀ x ∈ queried q D, m1 x = m2 x) :
    getRelative m1 q D v = getRelative m2 q D v := by
  unfold getRelative
  rw [relLoop_congr m1 m2 _ _ _ h]

theorem reinherit_congr (m1 m2 : Path → List Path) (ex : Path → Bool) (r : DRef) (dm : Mode) (q D : Path)
    (t : Target) (h : ∀ x ∈ queried q D, m1 x = m2 x) :
    reinherit m1 ex r dm q D t = reinherit m2 ex r dm q D t := by
  cases t with
  | obj v => simp only [reinherit, onInherit, getRelativeInterface, getRelative_congr m1 m2 q D v h]
  | null => rfl
  | plain x => rfl

theorem relPath_prefix : ∀ (t : List String) (sr : Path), sr ≠ [] →
    ∀ x ∈ relPath sr t, x ≠ [] ∧ ∃ i, x = sr ++ t.take i
  | [], sr, hne, x, hx => by
    simp only [relPath, List.mem_singleton] at hx
    subst hx
    exact ⟨hne, 0, by simp⟩
  | n :: rest, sr, hne, x, hx => by
    simp only [relPath, List.mem_cons] at hx
    rcases hx with rfl | hx
    · exact ⟨hne, 0, by simp⟩
    · rw [extP_of_ne hne] at hx
      obtain ⟨h1, i, h2⟩ := relPath_prefix rest (sr ++ [n]) (by simp) x hx
      exact ⟨h1, i + 1, by rw [h2]; simp⟩

/-- for clean names the roots visited are non-empty prefixes of the sub space -/
theorem queried_prefix {q D : Path} (hq : Clean q) (hD : Clean D) : ∀ x ∈ queried q D, x ≠ [] ∧ x <+: q := by
  intro x hx
  obtain ⟨sr, hsr⟩ := desc_suffix_left q D
  obtain ⟨br, hbr⟩ := desc_suffix_right q D
  obtain ⟨hsrne, _⟩ := roots_ne hq.1 hD.1 hsr hbr
  unfold queried at hx
  rw [descList_clean hq hD, trimRight_clean hq] at hx
  generalize hd : desc q D = dd at hsr hx
  have : q.take (q.length - dd.length) = sr := by
    rw [← hsr]
    exact take_sub_len sr dd
  rw [this] at hx
  obtain ⟨h1, i, h2⟩ := relPath_prefix _ sr hsrne x hx
  refine ⟨h1, ?_⟩
  rw [h2, ← hsr]
  exact (List.prefix_append_right_inj sr).mpr (List.take_prefix _ _)

/-! ## 2. existence only decides between the counterpart and a null object -/

/-- equal, or a null object where the counterpart (now) exists -/
def UpToNull (a b : DRef) : Prop :=
  a = b ∨ (a.mode = b.mode ∧ a.binding.isRelative = true ∧ b.binding.isRelative = true ∧
    a.binding.target = .null ∧ ∃ p, b.binding.target = .obj p)

theorem reinherit_upToNull (mro : Path → List Path) (ex : Path → Bool) (r : DRef) (dm : Mode) (q D v : Path)
    (a : DRef) (h : reinherit mro ex r dm q D (.obj v) = some a) :
    ∃ b, reinherit mro (fun _ => true) (createDerived dm) dm q D (.obj v) = some b ∧ UpToNull a b := by
  cases dm with
  | absolute =>
    simp only [reinherit, onInherit, Option.some.injEq] at h ⊢
    exact ⟨_, rfl, Or.inl h.symm⟩
  | auto =>
    simp only [reinherit, onInherit, getRelativeInterface] at h ⊢
    cases hg : getRelative mro q D v with
    | mustNotHappen => rw [hg] at h; simp at h
    | none => rw [hg] at h; simp at h ⊢; exact Or.inl h.symm
    | some p =>
      rw [hg] at h
      by_cases hp : p = []
      · simp [hp] at h ⊢; exact Or.inl h.symm
      · by_cases he : ex p = true
        · simp [hp, he] at h ⊢; exact Or.inl h.symm
        · simp [hp, he] at h ⊢
          subst h
          exact Or.inr ⟨rfl, rfl, rfl, rfl, p, rfl⟩
  | relative =>
    simp only [reinherit, onInherit, getRelativeInterface] at h ⊢
    cases hg : getRelative mro q D v with
    | mustNotHappen => rw [hg] at h; simp at h
    | none => rw [hg] at h; simp at h
    | some p =>
      rw [hg] at h
      by_cases hp : p = []
      · simp [hp] at h
      · by_cases he : ex p = true
        · simp [hp, he] at h ⊢; exact Or.inl h.symm
        · simp [hp, he] at h ⊢
          subst h
          exact Or.inr ⟨rfl, rfl, rfl, rfl, p, rfl⟩

theorem reinherit_mode (mro : Path → List Path) (ex : Path → Bool) (r r' : DRef) (dm : Mode) (S D : Path)
    (v : Target) (h : reinherit mro ex r dm S D v = some r') : r'.mode = dm := by
  unfold reinherit at h
  split at h
  · cases h; rfl
  · cases h

/-! ## 3. the invariant -/

/-- what the derived reference `n` of the space `q` has to be NOW: it carries the mode of its first definer
and is bound to what `on_inherit` from that definer gives in the current linearisations (a null object
where the counterpart was missing when it was derived); a value that is no object is copied -/
def Expected (st : RState) (q : Path) (n : String) (r : DRef) : Prop :=
  ∃ D dr, st.firstDefiner q n = some (D, dr) ∧ r.mode = dr.mode ∧
    match dr.binding.target with
    | .obj v => ∃ b, reinherit st.mroOf (fun _ => true) (createDerived dr.mode) dr.mode q D (.obj v) = some b ∧
        UpToNull r b
    | t => r.binding.target = t

structure RShape (st : RState) : Prop where
  allMro : ∀ q ∈ st.ids, (st.mroOpt q).isSome = true
  outside : ∀ q, q ∉ st.ids → st.bases q = [] ∧ ∀ n, st.ref q n = none
  basesIn : ∀ q, ∀ b ∈ st.bases q, b ∈ st.ids
  tree : ∀ q ∈ st.ids, ∀ x, x ≠ [] → x <+: q → x ∈ st.ids
  clean : ∀ q ∈ st.ids, Clean q

structure RInv (st : RState) : Prop extends RShape st where
  rebound : ∀ q n r, st.ref q n = some ⟨false, r⟩ → st.dirty q = false → Expected st q n r

theorem rshape_empty : RShape {} := by
  refine ⟨?_, ?_, ?_, ?_, ?_⟩
  · intro q hq; cases hq
  · intro q _; exact ⟨rfl, fun _ => rfl⟩
  · intro q b hb; cases hb
  · intro q hq; cases hq
  · intro q hq; cases hq

theorem rinv_empty : RInv {} := ⟨rshape_empty, fun q n r h => by cases h⟩

/-! ### linearisations -/

theorem mroOpt_nobases (st : RState) (x : Path) (hb : st.bases x = []) : st.mroOpt x = some [x] := by
  unfold RState.mroOpt
  simp [C3.mro, hb, C3.merge, C3.totalLen]

theorem mroOpt_some {st : RState} (h : RShape st) (x : Path) : ∃ l, st.mroOpt x = some l := by
  by_cases hx : x ∈ st.ids
  · have := h.allMro x hx
    cases hm : st.mroOpt x with
    | none => rw [hm] at this; cases this
    | some l => exact ⟨l, rfl⟩
  · exact ⟨[x], mroOpt_nobases st x (h.outside x hx).1⟩

theorem mroOf_of_opt {st : RState} {x : Path} {l : List Path} (h : st.mroOpt x = some l) : st.mroOf x = l := by
  unfold RState.mroOf; rw [h]; rfl

/-- locality: same direct bases on the linearisation, not fewer spaces: same linearisation -/
theorem mroOpt_frame {st st' : RState} (hlen : st.ids.length ≤ st'.ids.length) {x : Path} {l : List Path}
    (hm : st.mroOpt x = some l) (hb : ∀ y ∈ l, st'.bases y = st.bases y) : st'.mroOpt x = some l :=
  C3.mro_transfer_le st.bases st'.bases _ _ x l hm hb (by omega)

/-- a space of a linearisation is the space itself or an existing space -/
theorem mem_mro_ids {st : RState} (h : RShape st) {x y : Path} {l : List Path} (hm : st.mroOpt x = some l)
    (hy : y ∈ l) : y = x ∨ y ∈ st.ids := by
  rcases C3.mro_mem_cases st.bases _ x l hm y hy with rfl | ⟨z, _, hz⟩
  · exact Or.inl rfl
  · exact Or.inr (h.basesIn z y hz)

theorem mroOf_head {st : RState} (x : Path) : ∃ t, st.mroOf x = x :: t := by
  unfold RState.mroOf
  cases hm : st.mroOpt x with
  | none => exact ⟨[], rfl⟩
  | some l =>
    obtain ⟨r, hr⟩ := C3.mro_head st.bases _ x l hm
    exact ⟨r, by simp [hr]⟩

/-! ### first definers -/

theorem firstDefiner_some {st : RState} {q : Path} {n : String} {D : Path} {dr : DRef}
    (h : st.firstDefiner q n = some (D, dr)) : D ∈ (st.mroOf q).tail ∧ st.definedRef D n = some dr := by
  unfold RState.firstDefiner at h
  obtain ⟨b, hb, hf⟩ := List.exists_of_findSome?_eq_some h
  cases hd : st.definedRef b n with
  | none => rw [hd] at hf; cases hf
  | some r =>
    rw [hd] at hf
    simp only [Option.map_some, Option.some.injEq, Prod.mk.injEq] at hf
    obtain ⟨rfl, rfl⟩ := hf
    exact ⟨hb, hd⟩

theorem findSome_congr {β : Type} (f g : Path → Option β) : ∀ (l : List Path), (∀ b ∈ l, f b = g b) →
    l.findSome? f = l.findSome? g
  | [], _ => rfl
  | b :: rest, h => by
    simp only [List.findSome?_cons, h b (by simp)]
    rw [findSome_congr f g rest (fun x hx => h x (by simp [hx]))]

theorem firstDefiner_congr {st st' : RState} {q : Path} {n : String} (hm : st'.mroOf q = st.mroOf q)
    (hd : ∀ b ∈ (st.mroOf q).tail, st'.definedRef b n = st.definedRef b n) :
    st'.firstDefiner q n = st.firstDefiner q n := by
  unfold RState.firstDefiner
  rw [hm]
  exact findSome_congr _ _ _ (fun b hb => by rw [hd b hb])

theorem definedRef_some_ref {st : RState} {b : Path} {n : String} {r : DRef} (h : st.definedRef b n = some r) :
    st.ref b n = some ⟨true, r⟩ := by
  unfold RState.definedRef at h
  split at h
  · rename_i r' hr; cases h; exact hr
  · cases h

theorem definedRef_of_ref_derived {st : RState} {b : Path} {n : String} {r : DRef}
    (h : st.ref b n = some ⟨false, r⟩) : st.definedRef b n = none := by
  unfold RState.definedRef; rw [h]

theorem definedRef_of_ref_eq {st st' : RState} {b : Path} {n : String} (h : st'.ref b n = st.ref b n) :
    st'.definedRef b n = st.definedRef b n := by
  unfold RState.definedRef; rw [h]

theorem definer_in_ids {st : RState} (h : RShape st) {b : Path} {n : String} {r : DRef}
    (hd : st.definedRef b n = some r) : b ∈ st.ids := by
  apply Classical.byContradiction
  intro hb
  have := (h.outside b hb).2 n
  rw [definedRef_some_ref hd] at this
  cases this

/-! ### the expectation depends on the linearisations of the enclosing spaces and on the first definer -/

theorem Expected_congr {st st' : RState} (h : RShape st) {q : Path} {n : String} {r : DRef} (hq : q ∈ st.ids)
    (hf : st'.firstDefiner q n = st.firstDefiner q n)
    (hm : ∀ x, x ≠ [] → x <+: q → st'.mroOf x = st.mroOf x) (he : Expected st q n r) : Expected st' q n r := by
  obtain ⟨D, dr, h1, h2, h3⟩ := he
  refine ⟨D, dr, by rw [hf]; exact h1, h2, ?_⟩
  have hD : D ∈ st.ids := definer_in_ids h (firstDefiner_some h1).2
  have hq' := h.clean q hq
  have hD' := h.clean D hD
  cases ht : dr.binding.target with
  | obj v =>
    rw [ht] at h3
    obtain ⟨b, hb, hu⟩ := h3
    refine ⟨b, ?_, hu⟩
    rw [← hb]
    exact reinherit_congr _ _ _ _ _ _ _ _ (fun x hx => hm x (queried_prefix hq' hD' x hx).1 (queried_prefix hq' hD' x hx).2)
  | null => rw [ht] at h3; exact h3
  | plain x => rw [ht] at h3; exact h3

/-! ### re-derivation -/

theorem ref_rederive_mem (st : RState) (qs : List Path) (b : Path) (n : String) (hb : b ∈ qs) :
    (st.rederive qs).ref b n = (st.derive1 b n).getD none := by
  simp [RState.rederive, hb]

theorem ref_rederive_not_mem (st : RState) (qs : List Path) (b : Path) (n : String) (hb : b ∉ qs) :
    (st.rederive qs).ref b n = st.ref b n := by
  simp [RState.rederive, hb]

theorem definedRef_rederive (st : RState) (qs : List Path) (b : Path) (n : String) :
    (st.rederive qs).definedRef b n = st.definedRef b n := by
  by_cases hb : b ∈ qs
  · have hr := ref_rederive_mem st qs b n hb
    cases hd : st.definedRef b n with
    | some r =>
      have : st.derive1 b n = some (some ⟨true, r⟩) := by unfold RState.derive1; rw [hd]
      rw [this] at hr
      unfold RState.definedRef
      rw [hr]; rfl
    | none =>
      have : ∀ x, (st.derive1 b n).getD none = some x → x.defined = false := by
        intro x hx
        unfold RState.derive1 at hx
        rw [hd] at hx
        dsimp only at hx
        cases hf : st.firstDefiner b n with
        | none => rw [hf] at hx; simp at hx
        | some p =>
          obtain ⟨D, dr⟩ := p
          rw [hf] at hx
          dsimp only at hx
          generalize reinherit st.mroOf st.exist (st.oldOr b n dr.mode) dr.mode b D dr.binding.target = res at hx
          cases res with
          | none => simp at hx
          | some a => simp at hx; rw [← hx]
      unfold RState.definedRef
      rw [hr]
      cases hx : (st.derive1 b n).getD none with
      | none => rfl
      | some x =>
        have := this x hx
        obtain ⟨d, r⟩ := x
        simp only at this
        subst this
        rfl
  · exact definedRef_of_ref_eq (ref_rederive_not_mem st qs b n hb)

theorem mroOf_rederive (st : RState) (qs : List Path) : (st.rederive qs).mroOf = st.mroOf := rfl
theorem mroOpt_rederive (st : RState) (qs : List Path) : (st.rederive qs).mroOpt = st.mroOpt := rfl

theorem firstDefiner_rederive (st : RState) (qs : List Path) (q : Path) (n : String) :
    (st.rederive qs).firstDefiner q n = st.firstDefiner q n :=
  firstDefiner_congr rfl (fun b _ => definedRef_rederive st qs b n)

/-- a space that was derived again holds what is expected -/
theorem rederive_expected (st : RState) (qs : List Path) (q : Path) (hq : q ∈ qs) (n : String)
    (r : DRef) (hr : (st.rederive qs).ref q n = some ⟨false, r⟩) : Expected (st.rederive qs) q n r := by
  rw [ref_rederive_mem st qs q n hq] at hr
  unfold RState.derive1 at hr
  cases hd : st.definedRef q n with
  | some r0 => rw [hd] at hr; simp at hr
  | none =>
    rw [hd] at hr
    dsimp only at hr
    cases hf : st.firstDefiner q n with
    | none => rw [hf] at hr; simp at hr
    | some p =>
      obtain ⟨D, dr⟩ := p
      rw [hf] at hr
      dsimp only at hr
      cases hre : reinherit st.mroOf st.exist (st.oldOr q n dr.mode) dr.mode q D dr.binding.target with
      | none => rw [hre] at hr; simp at hr
      | some a =>
        rw [hre] at hr
        simp only [Option.map_some, Option.getD_some, Option.some.injEq, RRef.mk.injEq, true_and] at hr
        subst hr
        refine ⟨D, dr, by rw [firstDefiner_rederive]; exact hf, reinherit_mode _ _ _ _ _ _ _ _ hre, ?_⟩
        cases ht : dr.binding.target with
        | obj v =>
          rw [ht] at hre
          exact reinherit_upToNull _ _ _ _ _ _ _ _ hre
        | null =>
          rw [ht] at hre
          simp only [reinherit, onInherit, Option.some.injEq] at hre
          rw [← hre]
        | plain x =>
          rw [ht] at hre
          simp only [reinherit, onInherit, Option.some.injEq] at hre
          rw [← hre]

/-! ### sub spaces -/

theorem mem_subs {st : RState} {p q : Path} : q ∈ st.subs p ↔ q ∈ st.ids ∧ q ≠ p ∧ p ∈ st.mroOf q := by
  unfold RState.subs
  simp only [List.mem_filter, Bool.and_eq_true, bne_iff_ne, ne_eq, List.contains_eq_mem, decide_eq_true_eq]

theorem not_in_area {st : RState} {p x : Path} (hx : x ∈ st.ids) (hA : x ∉ p :: st.subs p) : p ∉ st.mroOf x := by
  intro hm
  apply hA
  by_cases hxp : x = p
  · simp [hxp]
  · exact List.mem_cons_of_mem _ (mem_subs.mpr ⟨hx, hxp, hm⟩)

theorem area_in_ids {st : RState} {p : Path} (hp : p ∈ st.ids) : ∀ q ∈ p :: st.subs p, q ∈ st.ids := by
  intro q hq
  rcases List.mem_cons.mp hq with rfl | hq
  · exact hp
  · exact (mem_subs.mp hq).1

/-! ### re-derivation keeps the shape; spaces not derived again keep their references -/

theorem rshape_rederive {st : RState} (h : RShape st) (A : List Path) (hA : ∀ q ∈ A, q ∈ st.ids) :
    RShape (st.rederive A) := by
  refine ⟨h.allMro, ?_, h.basesIn, h.tree, h.clean⟩
  intro q hq
  refine ⟨(h.outside q hq).1, fun n => ?_⟩
  have : q ∉ A := fun hqa => hq (hA q hqa)
  rw [ref_rederive_not_mem st A q n this]
  exact (h.outside q hq).2 n

theorem rshape_markBelow {st : RState} (h : RShape st) (A : List Path) : RShape (st.markBelow A) :=
  ⟨h.allMro, h.outside, h.basesIn, h.tree, h.clean⟩

theorem expected_markBelow {st : RState} (A : List Path) (q : Path) (n : String) (r : DRef)
    (h : Expected st q n r) : Expected (st.markBelow A) q n r := h

/-- the invariant after a re-derivation of the spaces `A`: it is enough that the spaces not derived again
that are (still) clean have what is expected -/
theorem rinv_rederive {st : RState} (h : RShape st) (A : List Path) (hA : ∀ q ∈ A, q ∈ st.ids)
    (hkeep : ∀ q n r, q ∉ A → st.ref q n = some ⟨false, r⟩ → st.dirty q = false → Expected st q n r) :
    RInv (st.rederive A) := by
  refine ⟨rshape_rederive h A hA, ?_⟩
  intro q n r hr hd
  by_cases hq : q ∈ A
  · exact rederive_expected st A q hq n r hr
  · rw [ref_rederive_not_mem st A q n hq] at hr
    have hd' : st.dirty q = false := by simpa [RState.rederive, hq] using hd
    have he := hkeep q n r hq hr hd'
    have hqi : q ∈ st.ids := by
      apply Classical.byContradiction
      intro hc
      rw [(h.outside q hc).2 n] at hr; cases hr
    exact Expected_congr h hqi (firstDefiner_rederive st A q n) (fun _ _ _ => rfl) he

theorem rinv_rederive_mark {st : RState} (h : RShape st) (A : List Path) (hA : ∀ q ∈ A, q ∈ st.ids)
    (hkeep : ∀ q n r, q ∉ A → strictPrefixIn A q = false → st.ref q n = some ⟨false, r⟩ → st.dirty q = false →
      Expected st q n r) :
    RInv ((st.rederive A).markBelow A) := by
  refine ⟨rshape_markBelow (rshape_rederive h A hA) A, ?_⟩
  intro q n r hr hd
  have hr1 : (st.rederive A).ref q n = some ⟨false, r⟩ := hr
  apply expected_markBelow
  by_cases hq : q ∈ A
  · exact rederive_expected st A q hq n r hr1
  · rw [ref_rederive_not_mem st A q n hq] at hr1
    have hd1 : (if A.contains q then (st.rederive A).dirty q else if strictPrefixIn A q then true else (st.rederive A).dirty q)
        = false := hd
    have hqc : A.contains q = false := by simpa using hq
    rw [hqc] at hd1
    simp only [Bool.false_eq_true, if_false] at hd1
    have hsp : strictPrefixIn A q = false := by
      cases hs : strictPrefixIn A q with
      | false => rfl
      | true => rw [hs] at hd1; simp at hd1
    rw [hsp] at hd1
    simp only [Bool.false_eq_true, if_false] at hd1
    have hd' : st.dirty q = false := by simpa [RState.rederive, hq] using hd1
    have he := hkeep q n r hq hsp hr1 hd'
    have hqi : q ∈ st.ids := by
      apply Classical.byContradiction
      intro hc
      rw [(h.outside q hc).2 n] at hr1; cases hr1
    exact Expected_congr h hqi (firstDefiner_rederive st A q n) (fun _ _ _ => rfl) he

/-! ### `del_ref` -/

theorem ref_in_ids {st : RState} (h : RShape st) {q : Path} {n : String} {x : RRef} (hr : st.ref q n = some x) :
    q ∈ st.ids := by
  apply Classical.byContradiction
  intro hc
  rw [(h.outside q hc).2 n] at hr; cases hr

theorem rinv_delRef {st st' : RState} (h : RInv st) (p : Path) (n : String) (hop : st.delRef p n = some st') :
    RInv st' := by
  unfold RState.delRef at hop
  split at hop
  · cases hop
  · rename_i hdef
    dsimp only at hop
    split at hop
    · cases hop
    · cases hop
      have hp : p ∈ st.ids := by
        cases hd : st.definedRef p n with
        | none => rw [hd] at hdef; simp at hdef
        | some r => exact definer_in_ids h.toRShape hd
      -- the state with the reference removed
      let st1 : RState := { st with ref := fun q k => if q = p ∧ k = n then none else st.ref q k }
      have hs1 : RShape st1 := by
        refine ⟨h.allMro, ?_, h.basesIn, h.tree, h.clean⟩
        intro q hq
        refine ⟨(h.outside q hq).1, fun k => ?_⟩
        show (if q = p ∧ k = n then none else st.ref q k) = none
        split
        · rfl
        · exact (h.outside q hq).2 k
      have hsubs : st1.subs p = st.subs p := rfl
      apply rinv_rederive hs1 (p :: st.subs p) (area_in_ids hp)
      intro q k r hq hr hd
      have hqp : q ≠ p := fun e => hq (by simp [e])
      have hr' : st.ref q k = some ⟨false, r⟩ := by
        have : st1.ref q k = st.ref q k := by
          show (if q = p ∧ k = n then none else st.ref q k) = st.ref q k
          simp [hqp]
        rw [← this]; exact hr
      have hqi := ref_in_ids h.toRShape hr'
      have he := h.rebound q k r hr' hd
      have hnm : p ∉ st.mroOf q := not_in_area hqi hq
      refine Expected_congr h.toRShape hqi ?_ (fun _ _ _ => rfl) he
      refine firstDefiner_congr rfl (fun b hb => ?_)
      have hbp : b ≠ p := fun e => hnm (e ▸ List.mem_of_mem_tail hb)
      apply definedRef_of_ref_eq
      show (if b = p ∧ k = n then none else st.ref b k) = st.ref b k
      simp [hbp]

/-! ### base changes -/

theorem mroOf_rebase_frame {st : RState} (h : RShape st) (p : Path) (nb : List Path) (x : Path)
    (hx : p ∉ st.mroOf x) :
    ({ st with bases := fun q => if q = p then nb else st.bases q } : RState).mroOf x = st.mroOf x := by
  obtain ⟨l, hl⟩ := mroOpt_some h x
  have hl' := mroOf_of_opt hl
  rw [hl'] at hx
  have : ({ st with bases := fun q => if q = p then nb else st.bases q } : RState).mroOpt x = some l := by
    refine mroOpt_frame (st := st) (st' := { st with bases := fun q => if q = p then nb else st.bases q })
      (Nat.le_refl _) hl (fun y hy => ?_)
    have : y ≠ p := fun e => hx (e ▸ hy)
    simp [this]
  rw [mroOf_of_opt this, hl']

theorem rinv_rebase {st st' : RState} (h : RInv st) (p : Path) (nb : List Path) (hp : p ∈ st.ids)
    (hnb : ∀ b ∈ nb, b ∈ st.ids) (hop : st.rebase p nb = some st') : RInv st' := by
  unfold RState.rebase at hop
  dsimp only at hop
  split at hop
  · cases hop
  · rename_i hall
    split at hop
    · cases hop
    · cases hop
      let st1 : RState := { st with bases := fun q => if q = p then nb else st.bases q }
      have hs1 : RShape st1 := by
        refine ⟨?_, ?_, ?_, h.tree, h.clean⟩
        · intro q hq
          cases hb : st1.ids.all (fun q => (st1.mroOpt q).isSome) with
          | false => exact absurd (by show (!(st1.ids.all (fun q => (st1.mroOpt q).isSome))) = true; rw [hb]; rfl) hall
          | true => exact List.all_eq_true.mp hb q hq
        · intro q hq
          have hqp : q ≠ p := fun e => hq (e ▸ hp)
          refine ⟨?_, (h.outside q hq).2⟩
          show (if q = p then nb else st.bases q) = []
          simp [hqp, (h.outside q hq).1]
        · intro q b hb
          have hb' : b ∈ (if q = p then nb else st.bases q) := hb
          split at hb'
          · exact hnb b hb'
          · exact h.basesIn q b hb'
      have hA : ∀ q ∈ p :: st.subs p, q ∈ st1.ids := area_in_ids hp
      apply rinv_rederive_mark hs1 (p :: st.subs p) hA
      intro q k r hq hsp hr hd
      have hr' : st.ref q k = some ⟨false, r⟩ := hr
      have hqi := ref_in_ids h.toRShape hr'
      have he := h.rebound q k r hr' hd
      -- the linearisation of `q` and of every enclosing space is what it was
      have hfr : ∀ x, x ≠ [] → x <+: q → st1.mroOf x = st.mroOf x := by
        intro x hxne hxq
        have hxi : x ∈ st.ids := h.tree q hqi x hxne hxq
        have hxA : x ∉ p :: st.subs p := by
          intro hxa
          by_cases hxe : x = q
          · exact hq (hxe ▸ hxa)
          · have hlen : x.length < q.length := by
              have := hxq.length_le
              rcases Nat.lt_or_ge x.length q.length with hl | hl
              · exact hl
              · exact absurd (hxq.eq_of_length (by omega)) hxe
            have : strictPrefixIn (p :: st.subs p) q = true := by
              unfold strictPrefixIn
              apply List.any_eq_true.mpr
              exact ⟨x, hxa, by simp [hlen, List.isPrefixOf_iff_prefix.mpr hxq]⟩
            rw [this] at hsp; cases hsp
        exact mroOf_rebase_frame h.toRShape p nb x (not_in_area hxi hxA)
      have hmq : st1.mroOf q = st.mroOf q := hfr q (h.clean q hqi).1 (List.prefix_refl q)
      refine Expected_congr h.toRShape hqi ?_ hfr he
      exact firstDefiner_congr hmq (fun b _ => rfl)

theorem rinv_addBase {st st' : RState} (h : RInv st) (p b : Path) (hop : st.addBase p b = some st') : RInv st' := by
  unfold RState.addBase at hop
  split at hop
  · cases hop
  · rename_i hc
    simp only [Bool.or_eq_true, Bool.not_eq_true', List.contains_eq_mem, decide_eq_false_iff_not,
      decide_eq_true_eq, not_or, Decidable.not_not] at hc
    refine rinv_rebase h p _ hc.1.1 ?_ hop
    intro x hx
    rcases List.mem_append.mp hx with hx | hx
    · exact h.basesIn p x hx
    · simp only [List.mem_singleton] at hx; rw [hx]; exact hc.1.2

theorem rinv_removeBase {st st' : RState} (h : RInv st) (p b : Path) (hop : st.removeBase p b = some st') :
    RInv st' := by
  unfold RState.removeBase at hop
  split at hop
  · cases hop
  · rename_i hc
    simp only [Bool.or_eq_true, Bool.not_eq_true', List.contains_eq_mem, decide_eq_false_iff_not,
      not_or, Decidable.not_not] at hc
    refine rinv_rebase h p _ hc.1 ?_ hop
    intro x hx
    exact h.basesIn p x (List.mem_filter.mp hx).1

/-! ### `new_space` -/

theorem prefix_concat_cases {α : Type} {x l : List α} {a : α} (h : x <+: l ++ [a]) : x = l ++ [a] ∨ x <+: l := by
  obtain ⟨t, ht⟩ := h
  rcases List.eq_nil_or_concat t with rfl | ⟨t', b, rfl⟩
  · left; simpa using ht
  · right
    rw [List.concat_eq_append, ← List.append_assoc] at ht
    have := List.append_inj' ht rfl
    exact ⟨t', this.1⟩

theorem rinv_newSpace {st st' : RState} (h : RInv st) (parent : Path) (name : String) (bases : List Path)
    (cells : List String) (hop : st.newSpace parent name bases cells = some st') : RInv st' := by
  unfold RState.newSpace at hop
  dsimp only at hop
  split at hop
  · cases hop
  · rename_i hc
    simp only [Bool.or_eq_true, beq_iff_eq, List.contains_eq_mem, decide_eq_true_eq, Bool.not_eq_true',
      Bool.or_eq_false_iff, decide_eq_false_iff_not, not_or] at hc
    obtain ⟨⟨⟨⟨⟨hname, hpar⟩, _hcells⟩, hnew⟩, hparent⟩, hbases⟩ := hc
    split at hop
    · cases hop
    · rename_i hmro
      split at hop
      · cases hop
      · cases hop
        let P := parent ++ [name]
        let st1 : RState := { st with
          ids := st.ids ++ [P]
          bases := fun q => if q = P then bases else st.bases q
          cells := fun q => if q = P then cells else st.cells q }
        have hbases' : ∀ b ∈ bases, b ∈ st.ids := by
          intro b hb
          cases hall : bases.all st.ids.contains with
          | false => rw [hall] at hbases; simp at hbases
          | true => simpa using List.all_eq_true.mp hall b hb
        have hparent' : parent = [] ∨ parent ∈ st.ids := by
          by_cases hp : parent = []
          · exact Or.inl hp
          · right
            apply Classical.byContradiction
            intro hni
            exact hparent ⟨by simpa using hp, hni⟩
        -- linearisations of the old spaces (and of every path other than the new one) are what they were
        have hfr : ∀ x, x ≠ P → st1.mroOpt x = st.mroOpt x := by
          intro x hx
          obtain ⟨l, hl⟩ := mroOpt_some h.toRShape x
          rw [hl]
          refine mroOpt_frame (st := st) (st' := st1) (by simp [st1]) hl (fun y hy => ?_)
          have hyP : y ≠ P := by
            rcases mem_mro_ids h.toRShape hl hy with rfl | hyi
            · exact hx
            · exact fun e => hnew (show P ∈ st.ids from e ▸ hyi)
          show (if y = P then bases else st.bases y) = st.bases y
          simp [hyP]
        have hfr' : ∀ x, x ≠ P → st1.mroOf x = st.mroOf x := by
          intro x hx; unfold RState.mroOf; rw [hfr x hx]
        have hs1 : RShape st1 := by
          refine ⟨?_, ?_, ?_, ?_, ?_⟩
          · intro q hq
            rcases List.mem_append.mp hq with hq | hq
            · rw [hfr q (fun e => hnew (show P ∈ st.ids from e ▸ hq))]; exact h.allMro q hq
            · simp only [List.mem_singleton] at hq
              rw [hq]
              cases hm : st1.mroOpt P with
              | none => rw [hm] at hmro; simp at hmro
              | some l => rfl
          · intro q hq
            have hq1 : q ∉ st.ids := fun e => hq (List.mem_append_left _ e)
            have hq2 : q ≠ P := fun e => hq (by simp [st1, e])
            refine ⟨?_, (h.outside q hq1).2⟩
            show (if q = P then bases else st.bases q) = []
            simp [hq2, (h.outside q hq1).1]
          · intro q b hb
            have hb' : b ∈ (if q = P then bases else st.bases q) := hb
            apply List.mem_append_left
            split at hb'
            · exact hbases' b hb'
            · exact h.basesIn q b hb'
          · intro q hq x hxne hxq
            rcases List.mem_append.mp hq with hq | hq
            · exact List.mem_append_left _ (h.tree q hq x hxne hxq)
            · simp only [List.mem_singleton] at hq
              subst hq
              rcases prefix_concat_cases hxq with rfl | hx
              · exact List.mem_append_right _ (List.mem_singleton.mpr rfl)
              · rcases hparent' with hp | hp
                · rw [hp] at hx
                  exact absurd (List.prefix_nil.mp hx) hxne
                · exact List.mem_append_left _ (h.tree parent hp x hxne hx)
          · intro q hq
            rcases List.mem_append.mp hq with hq | hq
            · exact h.clean q hq
            · simp only [List.mem_singleton] at hq
              subst hq
              refine ⟨by show parent ++ [name] ≠ []; simp, ?_⟩
              intro hm
              rcases List.mem_append.mp hm with hm | hm
              · exact hpar hm
              · simp only [List.mem_singleton] at hm; exact hname hm.symm
        apply rinv_rederive hs1 [P] (by intro q hq; exact List.mem_append_right _ hq)
        intro q k r hq hr hd
        have hqP : q ≠ P := by simpa using hq
        have hr' : st.ref q k = some ⟨false, r⟩ := hr
        have hqi := ref_in_ids h.toRShape hr'
        have he := h.rebound q k r hr' hd
        have hpre : ∀ x, x ≠ [] → x <+: q → st1.mroOf x = st.mroOf x := by
          intro x hxne hxq
          exact hfr' x (fun e => hnew (show P ∈ st.ids from e ▸ h.tree q hqi x hxne hxq))
        refine Expected_congr h.toRShape hqi ?_ hpre he
        exact firstDefiner_congr (hfr' q hqP) (fun b _ => rfl)

/-! ### `new_ref` / `change_ref` -/

/-- under the check `_check_subs_relrefs` makes, the loop of `new_ref` gives a sub space what `on_inherit`
gives it (as `C10.new_ref_agrees_with_inherit`) -/
theorem newRefSub_eq_reinherit (mro : Path → List Path) (ex : Path → Bool) (m : Mode) (r : DRef) (S D v : Path)
    (hchk : checkSubRelref mro m S D (.obj v) = false) :
    newRefSub mro ex m S D (.obj v) = reinherit mro ex r m S D (.obj v) := by
  cases m with
  | absolute => rfl
  | auto =>
    simp only [newRefSub, reinherit, onInherit]
    cases getRelativeInterface mro ex S D v with
    | none => rfl
    | some p => rfl
  | relative =>
    simp only [checkSubRelref] at hchk
    simp only [newRefSub, reinherit, onInherit, getRelativeInterface]
    cases hg : getRelative mro S D v with
    | none => rw [hg] at hchk; simp at hchk
    | mustNotHappen => rfl
    | some p =>
      rw [hg] at hchk
      have hp : p ≠ [] := by simpa using hchk
      by_cases hex : ex p = true <;> simp [hp, hex]

theorem newRefSub_mode (mro : Path → List Path) (ex : Path → Bool) (m : Mode) (S D : Path) (t : Target) (r : DRef)
    (h : newRefSub mro ex m S D t = some r) : r.mode = m := by
  unfold newRefSub at h
  cases t with
  | obj v =>
    cases m with
    | absolute => simp at h; rw [← h]
    | auto =>
      simp only at h
      cases hg : getRelativeInterface mro ex S D v with
      | none => rw [hg] at h; cases h
      | some p => rw [hg] at h; simp at h; rw [← h]
    | relative =>
      simp only at h
      cases hg : getRelativeInterface mro ex S D v with
      | none => rw [hg] at h; cases h
      | some p => rw [hg] at h; simp at h; rw [← h]
  | null => simp at h; rw [← h]
  | plain x => simp at h; rw [← h]

theorem newRefSub_nonobj (mro : Path → List Path) (ex : Path → Bool) (m : Mode) (S D : Path) (t : Target) (r : DRef)
    (ht : ∀ v, t ≠ .obj v) (h : newRefSub mro ex m S D t = some r) : r.binding.target = t := by
  unfold newRefSub at h
  cases t with
  | obj v => exact absurd rfl (ht v)
  | null => simp at h; rw [← h]
  | plain x => simp at h; rw [← h]

/-- the search for the first definer is not affected by a definition at `p` when it does not stop at `p` -/
theorem findSome_off (g1 g : Path → Option DRef) (p : Path) (hp : (g1 p).isSome = true)
    (hoff : ∀ b, b ≠ p → g1 b = g b) : ∀ (L : List Path),
    (∀ dr, L.findSome? (fun b => (g1 b).map (fun r => (b, r))) ≠ some (p, dr)) →
    L.findSome? (fun b => (g1 b).map (fun r => (b, r))) = L.findSome? (fun b => (g b).map (fun r => (b, r)))
  | [], _ => rfl
  | b :: rest, h => by
    by_cases hb : b = p
    · subst hb
      cases hg : g1 b with
      | none => rw [hg] at hp; cases hp
      | some x =>
        exfalso
        apply h x
        simp [List.findSome?_cons, hg]
    · simp only [List.findSome?_cons, hoff b hb]
      cases hg : g b with
      | some x => rfl
      | none =>
        simp only [Option.map_none]
        apply findSome_off g1 g p hp hoff rest
        intro dr hc
        apply h dr
        simp only [List.findSome?_cons, hoff b hb, hg, Option.map_none]
        exact hc

theorem rinv_setRef {st st' : RState} (h : RInv st) (p : Path) (n : String) (t : Target) (m : Mode)
    (hop : st.setRef p n t m = some st') : RInv st' := by
  unfold RState.setRef at hop
  split at hop
  · cases hop
  · rename_i hc
    simp only [Bool.or_eq_true, Bool.not_eq_true', List.contains_eq_mem, decide_eq_false_iff_not, beq_iff_eq,
      not_or, Decidable.not_not] at hc
    have hp : p ∈ st.ids := hc.1
    split at hop
    · cases hop
    · dsimp only at hop
      cases hg : setRefGuarded st.mroOf st.exist (st.ref p n).isSome m p t (st.takers (st.define p n t m) p n) with
      | none => rw [hg] at hop; cases hop
      | some out =>
        rw [hg] at hop
        dsimp only at hop
        split at hop
        · cases hop
        · cases hop
          let st1 := st.define p n t m
          let tk := st.takers st1 p n
          -- the guard passed for every taker
          have hchk : ∀ q ∈ tk, checkSubRelref st.mroOf m q p t = false := by
            intro q hq
            unfold setRefGuarded at hg
            split at hg
            · cases hg
            · rename_i hany
              cases hcq : checkSubRelref st.mroOf m q p t with
              | false => rfl
              | true => exact absurd (List.any_eq_true.mpr ⟨q, hq, hcq⟩) hany
          have htk : ∀ q ∈ tk, q ∈ st.subs p ∧ st.definedRef q n = none ∧ ∃ dr, st1.firstDefiner q n = some (p, dr) := by
            intro q hq
            have := List.mem_filter.mp hq
            refine ⟨this.1, ?_, ?_⟩
            · have h2 := this.2
              simp only [Bool.and_eq_true, Option.isNone_iff_eq_none] at h2
              exact h2.1
            · have h2 := this.2
              simp only [Bool.and_eq_true] at h2
              have h3 := h2.2
              cases hf : st1.firstDefiner q n with
              | none => rw [hf] at h3; cases h3
              | some x =>
                obtain ⟨D, dr⟩ := x
                rw [hf] at h3
                simp only [beq_iff_eq] at h3
                subst h3
                exact ⟨dr, rfl⟩
          have hst1p : st1.definedRef p n = some ⟨m, ⟨t, ctorFlag m⟩⟩ := by
            simp [st1, RState.define, RState.definedRef]
          have hst1off : ∀ b k, (b ≠ p ∨ k ≠ n) → st1.ref b k = st.ref b k := by
            intro b k hbk
            show (if b = p ∧ k = n then _ else st.ref b k) = st.ref b k
            have : ¬ (b = p ∧ k = n) := by
              rintro ⟨h1, h2⟩
              rcases hbk with hbk | hbk
              · exact hbk h1
              · exact hbk h2
            simp [this]
          -- the final state
          let fin : RState := { st1 with
            ref := fun q k =>
              if k = n ∧ tk.contains q then (newRefSub st.mroOf st.exist m q p t).map (fun r => ⟨false, r⟩)
              else st1.ref q k }
          have hfin_tk : ∀ q, q ∈ tk → fin.ref q n = (newRefSub st.mroOf st.exist m q p t).map (fun r => ⟨false, r⟩) := by
            intro q hq
            show (if n = n ∧ tk.contains q then _ else st1.ref q n) = _
            simp [hq]
          have hfin_other : ∀ q k, (k ≠ n ∨ q ∉ tk) → fin.ref q k = st1.ref q k := by
            intro q k hqk
            show (if k = n ∧ tk.contains q then _ else st1.ref q k) = _
            have : ¬ (k = n ∧ tk.contains q = true) := by
              rintro ⟨h1, h2⟩
              rcases hqk with hqk | hqk
              · exact hqk h1
              · exact hqk (by simpa using h2)
            exact if_neg this
          -- defined references of the final state are those of `st1`
          have hdef_fin : ∀ b k, fin.definedRef b k = st1.definedRef b k := by
            intro b k
            by_cases hbk : k = n ∧ b ∈ tk
            · obtain ⟨rfl, hb⟩ := hbk
              have hbp : b ≠ p := (mem_subs.mp (htk b hb).1).2.1
              have h1 : st1.definedRef b k = none := by
                rw [definedRef_of_ref_eq (hst1off b k (Or.inl hbp))]
                exact (htk b hb).2.1
              rw [h1]
              unfold RState.definedRef
              rw [hfin_tk b hb]
              cases newRefSub st.mroOf st.exist m b p t <;> rfl
            · apply definedRef_of_ref_eq
              apply hfin_other
              by_cases hk : k = n
              · exact Or.inr (fun hb => hbk ⟨hk, hb⟩)
              · exact Or.inl hk
          have hfd_fin : ∀ q k, fin.firstDefiner q k = st1.firstDefiner q k :=
            fun q k => firstDefiner_congr rfl (fun b _ => hdef_fin b k)
          show RInv fin
          refine ⟨⟨h.allMro, ?_, h.basesIn, h.tree, h.clean⟩, ?_⟩
          · intro q hq
            refine ⟨(h.outside q hq).1, fun k => ?_⟩
            have hqp : q ≠ p := fun e => hq (e ▸ hp)
            have hqt : q ∉ tk := fun hqt => hq (mem_subs.mp (htk q hqt).1).1
            rw [hfin_other q k (Or.inr hqt), hst1off q k (Or.inl hqp)]
            exact (h.outside q hq).2 k
          · intro q k r hr hd
            have hd' : st.dirty q = false := hd
            by_cases hqk : k = n ∧ q ∈ tk
            · -- a taker: bound by the loop of `new_ref` / `change_ref`
              obtain ⟨rfl, hq⟩ := hqk
              rw [hfin_tk q hq] at hr
              cases hn : newRefSub st.mroOf st.exist m q p t with
              | none => rw [hn] at hr; cases hr
              | some a =>
                rw [hn] at hr
                simp only [Option.map_some, Option.some.injEq, RRef.mk.injEq, true_and] at hr
                subst hr
                obtain ⟨dr, hfd⟩ := (htk q hq).2.2
                have hdr : dr = ⟨m, ⟨t, ctorFlag m⟩⟩ := by
                  have := (firstDefiner_some hfd).2
                  rw [hst1p] at this
                  exact (Option.some.inj this).symm
                refine ⟨p, dr, by rw [hfd_fin]; exact hfd, ?_, ?_⟩
                · rw [hdr]; exact newRefSub_mode _ _ _ _ _ _ _ hn
                · rw [hdr]
                  dsimp only
                  cases t with
                  | obj v =>
                    dsimp only
                    rw [newRefSub_eq_reinherit st.mroOf st.exist m (createDerived m) q p v (hchk q hq)] at hn
                    exact reinherit_upToNull _ _ _ _ _ _ _ _ hn
                  | null => exact newRefSub_nonobj _ _ _ _ _ _ _ (by intro v hv; cases hv) hn
                  | plain x => exact newRefSub_nonobj _ _ _ _ _ _ _ (by intro v hv; cases hv) hn
            · -- everything else keeps its reference and its first definer
              have hne : ¬ (q = p ∧ k = n) := by
                rintro ⟨rfl, rfl⟩
                have h1 : fin.ref q k = st1.ref q k := hfin_other q k (Or.inr (fun hq => hqk ⟨rfl, hq⟩))
                rw [h1] at hr
                have : st1.ref q k = some ⟨true, ⟨m, ⟨t, ctorFlag m⟩⟩⟩ := by simp [st1, RState.define]
                rw [this] at hr
                cases hr
              have hother : k ≠ n ∨ q ∉ tk := by
                by_cases hk : k = n
                · exact Or.inr (fun hq => hqk ⟨hk, hq⟩)
                · exact Or.inl hk
              have hoff : q ≠ p ∨ k ≠ n := by
                by_cases hq : q = p
                · exact Or.inr (fun hk => hne ⟨hq, hk⟩)
                · exact Or.inl hq
              have hr' : st.ref q k = some ⟨false, r⟩ := by
                rw [← hst1off q k hoff, ← hfin_other q k hother]; exact hr
              have hqi := ref_in_ids h.toRShape hr'
              have he := h.rebound q k r hr' hd'
              refine Expected_congr h.toRShape hqi ?_ (fun _ _ _ => rfl) he
              rw [hfd_fin]
              by_cases hk : k = n
              · subst hk
                -- `q` is not a taker and does not define the name: its first definer is not the new definition
                have hqd : st.definedRef q k = none := definedRef_of_ref_derived hr'
                have hqp : q ≠ p := by
                  rcases hoff with hq | hk
                  · exact hq
                  · exact absurd rfl hk
                have hqt : q ∉ tk := fun hq => hqk ⟨rfl, hq⟩
                by_cases hsub : q ∈ st.subs p
                · have hnot : ∀ dr, st1.firstDefiner q k ≠ some (p, dr) := by
                    intro dr hfd
                    apply hqt
                    apply List.mem_filter.mpr
                    refine ⟨hsub, ?_⟩
                    simp only [Bool.and_eq_true, Option.isNone_iff_eq_none]
                    exact ⟨hqd, by rw [hfd]; simp⟩
                  unfold RState.firstDefiner at hnot ⊢
                  have hm : st1.mroOf q = st.mroOf q := rfl
                  rw [hm] at hnot ⊢
                  exact findSome_off (fun b => st1.definedRef b k) (fun b => st.definedRef b k) p
                    (by rw [hst1p]; rfl)
                    (fun b hb => definedRef_of_ref_eq (hst1off b k (Or.inl hb))) _ hnot
                · have hnm : p ∉ st.mroOf q := fun hm => hsub (mem_subs.mpr ⟨hqi, hqp, hm⟩)
                  refine firstDefiner_congr rfl (fun b hb => ?_)
                  have hbp : b ≠ p := fun e => hnm (e ▸ List.mem_of_mem_tail hb)
                  exact definedRef_of_ref_eq (hst1off b k (Or.inl hbp))
              · exact firstDefiner_congr rfl (fun b _ => definedRef_of_ref_eq (hst1off b k (Or.inr hk)))

/-! ### cells: only what exists changes -/

theorem rinv_cells {st : RState} (h : RInv st) (f : Path → List String) : RInv { st with cells := f } :=
  ⟨⟨h.allMro, h.outside, h.basesIn, h.tree, h.clean⟩, h.rebound⟩

theorem rinv_newCells {st st' : RState} (h : RInv st) (p : Path) (c : String) (hop : st.newCells p c = some st') :
    RInv st' := by
  unfold RState.newCells at hop
  split at hop
  · cases hop
  · cases hop; exact rinv_cells h _

theorem rinv_delCells {st st' : RState} (h : RInv st) (p : Path) (c : String) (hop : st.delCells p c = some st') :
    RInv st' := by
  unfold RState.delCells at hop
  split at hop
  · cases hop
  · cases hop; exact rinv_cells h _

/-! ### every operation, every history -/

theorem rinv_step (st : RState) (op : ROp) (h : RInv st) : RInv (st.step op) := by
  unfold RState.step
  cases hop : st.apply op with
  | none => exact h
  | some st' =>
    simp only [Option.getD_some]
    cases op with
    | newSpace parent name bases cells => exact rinv_newSpace h parent name bases cells hop
    | newCells p c => exact rinv_newCells h p c hop
    | delCells p c => exact rinv_delCells h p c hop
    | setRef p n t m => exact rinv_setRef h p n t m hop
    | delRef p n => exact rinv_delRef h p n hop
    | addBase p b => exact rinv_addBase h p b hop
    | removeBase p b => exact rinv_removeBase h p b hop

theorem rinv_run : ∀ (ops : List ROp) (st : RState), RInv st → RInv (st.run ops)
  | [], _, h => h
  | op :: rest, st, h => by
    simp only [RState.run, List.foldl_cons]
    exact rinv_run rest _ (rinv_step st op h)

/-! ### which spaces are ever marked -/

def ROp.isRebase : ROp → Bool
  | .addBase _ _ => true
  | .removeBase _ _ => true
  | _ => false

/-- only a base change marks spaces: every other operation leaves the marks or clears them -/
theorem dirty_step_of_not_rebase (st : RState) (op : ROp) (hop : op.isRebase = false) (q : Path)
    (hd : (st.step op).dirty q = true) : st.dirty q = true := by
  unfold RState.step at hd
  cases ha : st.apply op with
  | none => rw [ha] at hd; exact hd
  | some st' =>
    rw [ha] at hd
    simp only [Option.getD_some] at hd
    have hcl : ∀ (s : RState) (A : List Path), (s.rederive A).dirty q = true → s.dirty q = true := by
      intro s A h
      have h' : (if A.contains q then false else s.dirty q) = true := h
      split at h'
      · cases h'
      · exact h'
    cases op with
    | newSpace parent name bases cells =>
      simp only [RState.apply, RState.newSpace] at ha
      split at ha
      · cases ha
      · split at ha
        · cases ha
        · split at ha
          · cases ha
          · cases ha; exact hcl _ _ hd
    | newCells p c =>
      simp only [RState.apply, RState.newCells] at ha
      split at ha
      · cases ha
      · cases ha; exact hd
    | delCells p c =>
      simp only [RState.apply, RState.delCells] at ha
      split at ha
      · cases ha
      · cases ha; exact hd
    | setRef p n t m =>
      simp only [RState.apply, RState.setRef] at ha
      split at ha
      · cases ha
      · split at ha
        · cases ha
        · split at ha
          · cases ha
          · split at ha
            · cases ha
            · cases ha; exact hd
    | delRef p n =>
      simp only [RState.apply, RState.delRef] at ha
      split at ha
      · cases ha
      · split at ha
        · cases ha
        · cases ha; exact hcl _ _ hd
    | addBase p b => cases hop
    | removeBase p b => cases hop

theorem no_rebase_no_dirty : ∀ (ops : List ROp) (st : RState), (∀ op ∈ ops, op.isRebase = false) →
    (∀ q, st.dirty q = false) → ∀ q, (st.run ops).dirty q = false
  | [], _, _, h, q => h q
  | op :: rest, st, hops, h, q => by
    simp only [RState.run, List.foldl_cons]
    apply no_rebase_no_dirty rest (st.step op) (fun o ho => hops o (List.mem_cons_of_mem _ ho))
    intro q'
    cases hd : (st.step op).dirty q' with
    | false => rfl
    | true =>
      have := dirty_step_of_not_rebase st op (hops op (by simp)) q' hd
      rw [h q'] at this; cases this

/-- a marked space lies strictly below another space: a top-level space is never marked -/
theorem dirty_depth_step (st : RState) (op : ROp) (h : RShape st) (hd : ∀ q, st.dirty q = true → 2 ≤ q.length)
    (q : Path) (hq : (st.step op).dirty q = true) : 2 ≤ q.length := by
  by_cases hr : op.isRebase = false
  · exact hd q (dirty_step_of_not_rebase st op hr q hq)
  · unfold RState.step at hq
    cases ha : st.apply op with
    | none => rw [ha] at hq; exact hd q hq
    | some st' =>
      rw [ha] at hq
      simp only [Option.getD_some] at hq
      have key : ∀ (p : Path) (nb : List Path), p ∈ st.ids → st.rebase p nb = some st' → 2 ≤ q.length := by
        intro p nb hp hreb
        unfold RState.rebase at hreb
        dsimp only at hreb
        split at hreb
        · cases hreb
        · split at hreb
          · cases hreb
          · cases hreb
            have hq' : (if (p :: st.subs p).contains q then
                ((({ st with bases := fun x => if x = p then nb else st.bases x } : RState).rederive (p :: st.subs p)).dirty q)
                else if strictPrefixIn (p :: st.subs p) q then true
                else ((({ st with bases := fun x => if x = p then nb else st.bases x } : RState).rederive (p :: st.subs p)).dirty q))
                = true := hq
            split at hq'
            · rename_i hc
              have : (if (p :: st.subs p).contains q then false else st.dirty q) = true := hq'
              rw [hc] at this; cases this
            · rename_i hc
              split at hq'
              · rename_i hsp
                unfold strictPrefixIn at hsp
                obtain ⟨a, ha1, ha2⟩ := List.any_eq_true.mp hsp
                simp only [Bool.and_eq_true, decide_eq_true_eq] at ha2
                have hai : a ∈ st.ids := area_in_ids hp a ha1
                have hane : a ≠ [] := (h.clean a hai).1
                have : 1 ≤ a.length := by
                  cases a with
                  | nil => exact absurd rfl hane
                  | cons x xs => simp
                omega
              · have : (if (p :: st.subs p).contains q then false else st.dirty q) = true := hq'
                simp only [hc, Bool.false_eq_true, if_false] at this
                exact hd q this
      cases op with
      | addBase p b =>
        simp only [RState.apply, RState.addBase] at ha
        split at ha
        · cases ha
        · rename_i hc
          simp only [Bool.or_eq_true, Bool.not_eq_true', List.contains_eq_mem, decide_eq_false_iff_not,
            decide_eq_true_eq, not_or, Decidable.not_not] at hc
          exact key p _ hc.1.1 ha
      | removeBase p b =>
        simp only [RState.apply, RState.removeBase] at ha
        split at ha
        · cases ha
        · rename_i hc
          simp only [Bool.or_eq_true, Bool.not_eq_true', List.contains_eq_mem, decide_eq_false_iff_not,
            not_or, Decidable.not_not] at hc
          exact key p _ hc.1 ha
      | newSpace _ _ _ _ => simp [ROp.isRebase] at hr
      | newCells _ _ => simp [ROp.isRebase] at hr
      | delCells _ _ => simp [ROp.isRebase] at hr
      | setRef _ _ _ _ => simp [ROp.isRebase] at hr
      | delRef _ _ => simp [ROp.isRebase] at hr

theorem dirty_depth_run : ∀ (ops : List ROp) (st : RState), RInv st → (∀ q, st.dirty q = true → 2 ≤ q.length) →
    ∀ q, (st.run ops).dirty q = true → 2 ≤ q.length
  | [], _, _, h, q, hq => h q hq
  | op :: rest, st, hi, h, q, hq => by
    simp only [RState.run, List.foldl_cons] at hq
    exact dirty_depth_run rest (st.step op) (rinv_step st op hi)
      (fun q' hq' => dirty_depth_step st op hi.toRShape h q' hq') q hq

end MxModel.RelHist
