import MxModel.Kernels.IOSpec
/-! Basic facts about the association lists and look-ups of the IOSpec model. -/
namespace MxModel.IOSpec

section alist
variable {κ α : Type} [DecidableEq κ]

theorem alookup_ainsert (l : List (κ × α)) (k k' : κ) (v : α) :
    alookup (ainsert l k v) k' = if k = k' then some v else alookup l k' := by
  induction l with
  | nil => simp [ainsert, alookup]
  | cons e rest ih =>
    obtain ⟨k0, v0⟩ := e
    simp only [ainsert]
    split
    · rename_i h; subst h
      simp only [alookup]
      split <;> simp_all
    · rename_i h
      simp only [alookup, ih]
      split <;> split <;> simp_all

theorem alookup_aerase (l : List (κ × α)) (k k' : κ) :
    alookup (aerase l k) k' = if k = k' then none else alookup l k' := by
  induction l with
  | nil => simp [aerase, alookup]
  | cons e rest ih =>
    obtain ⟨k0, v0⟩ := e
    simp only [aerase, List.filter] at ih ⊢
    by_cases h : k0 = k
    · subst h
      simp only [ne_eq, not_true_eq_false, decide_false, ih, alookup]
      split <;> simp_all
    · simp only [ne_eq, h, not_false_eq_true, decide_true, alookup, ih]
      split <;> split <;> simp_all

theorem alookup_mem {l : List (κ × α)} {k : κ} {v : α} (h : alookup l k = some v) : (k, v) ∈ l := by
  induction l with
  | nil => simp [alookup] at h
  | cons e rest ih =>
    obtain ⟨k0, v0⟩ := e
    simp only [alookup] at h
    split at h
    · rename_i hk; cases h; subst hk; simp
    · exact List.mem_cons_of_mem _ (ih h)

theorem mem_alookup {l : List (κ × α)} (hn : (l.map (·.1)).Nodup) {k : κ} {v : α} (h : (k, v) ∈ l) :
    alookup l k = some v := by
  induction l with
  | nil => simp at h
  | cons e rest ih =>
    obtain ⟨k0, v0⟩ := e
    simp only [List.map_cons, List.nodup_cons, List.mem_map, not_exists, not_and] at hn
    simp only [List.mem_cons, Prod.mk.injEq] at h
    simp only [alookup]
    rcases h with ⟨rfl, rfl⟩ | h
    · simp
    · have : k0 ≠ k := fun hk => hn.1 (k, v) h (by simp [hk])
      simp only [this, if_false]
      exact ih hn.2 h

theorem mem_ainsert_keys (l : List (κ × α)) (k : κ) (v : α) (k' : κ) :
    k' ∈ (ainsert l k v).map (·.1) ↔ k' = k ∨ k' ∈ l.map (·.1) := by
  induction l with
  | nil => simp [ainsert]
  | cons e rest ih =>
    obtain ⟨k0, v0⟩ := e
    simp only [ainsert]
    split
    · rename_i h; subst h; simp
    · simp only [List.map_cons, List.mem_cons, ih]
      grind

theorem ainsert_keys_nodup {l : List (κ × α)} (hn : (l.map (·.1)).Nodup) (k : κ) (v : α) :
    ((ainsert l k v).map (·.1)).Nodup := by
  induction l with
  | nil => simp [ainsert]
  | cons e rest ih =>
    obtain ⟨k0, v0⟩ := e
    simp only [List.map_cons, List.nodup_cons] at hn
    simp only [ainsert]
    split
    · rename_i h; subst h
      simpa using hn
    · rename_i h
      simp only [List.map_cons, List.nodup_cons, mem_ainsert_keys]
      exact ⟨by grind, ih hn.2⟩

theorem aerase_keys_nodup {l : List (κ × α)} (hn : (l.map (·.1)).Nodup) (k : κ) :
    ((aerase l k).map (·.1)).Nodup := by
  unfold aerase
  exact hn.sublist (List.Sublist.map _ List.filter_sublist)

end alist

/-! references -/

theorem mem_refErase {refs : List Ref} {o : Owner} {n : String} {r : Ref} :
    r ∈ refErase refs o n ↔ r ∈ refs ∧ ¬ (r.owner = o ∧ r.name = n) := by
  simp only [refErase, List.mem_filter, decide_eq_true_eq]

theorem refLookup_some {refs : List Ref} {o : Owner} {n : String} {r : Ref}
    (h : refLookup refs o n = some r) : r ∈ refs ∧ r.owner = o ∧ r.name = n := by
  unfold refLookup at h
  have h1 := List.mem_of_find?_eq_some h
  have h2 := List.find?_some h
  simp at h2
  exact ⟨h1, h2⟩

theorem refLookup_none {refs : List Ref} {o : Owner} {n : String}
    (h : refLookup refs o n = none) : ∀ r ∈ refs, ¬ (r.owner = o ∧ r.name = n) := by
  unfold refLookup at h
  rw [List.find?_eq_none] at h
  intro r hr
  simpa using h r hr

theorem refLookup_of_mem {refs : List Ref} {r : Ref} (h : r ∈ refs) :
    ∃ r', refLookup refs r.owner r.name = some r' := by
  cases hl : refLookup refs r.owner r.name with
  | some r' => exact ⟨r', rfl⟩
  | none => exact absurd ⟨rfl, rfl⟩ (refLookup_none hl r h)

/-! specs -/

theorem getSpec_some {st : St} {m : Nat} {v : Val} {σ : Spec}
    (h : getSpecFromValue st m v = some σ) : σ ∈ st.specs ∧ σ.group = m ∧ σ.val = v := by
  unfold getSpecFromValue at h
  have h1 := List.mem_of_find?_eq_some h
  have h2 := List.find?_some h
  simp at h2
  exact ⟨h1, h2⟩

theorem getSpec_none {st : St} {m : Nat} {v : Val}
    (h : getSpecFromValue st m v = none) : ∀ σ ∈ st.specs, ¬ (σ.group = m ∧ σ.val = v) := by
  unfold getSpecFromValue at h
  rw [List.find?_eq_none] at h
  intro σ hσ
  simpa using h σ hσ

theorem mem_insertSpec {l : List Spec} {σ τ : Spec} : τ ∈ insertSpec l σ ↔ τ = σ ∨ τ ∈ l := by
  induction l with
  | nil => simp [insertSpec]
  | cons c rest ih =>
    simp only [insertSpec]
    split
    · simp only [List.mem_cons]; grind
    · simp only [List.mem_cons, ih]; grind

theorem mem_delSpec {st : St} {σ τ : Spec} : τ ∈ (delSpec st σ).specs ↔ τ ∈ st.specs ∧ τ.sid ≠ σ.sid := by
  simp [delSpec]

theorem mem_ioSpecs {specs : List Spec} {m : Nat} {p : String} {c : Spec} :
    c ∈ ioSpecs specs m p ↔ c ∈ specs ∧ c.group = m ∧ c.path = p := by
  simp [ioSpecs]

end MxModel.IOSpec
