import MxModel.Proofs.SerialBasic
import MxModel.Proofs.PathCodec
/-! Parsing what the writer wrote gives the instructions one expects (`parse_write`). -/
namespace MxModel.Serial
open MxModel.PathCodec MxModel.Generated

/-! ## names -/

theorem validName_head {t : Name} (h : validName t = true) : t.head? ≠ some '_' := by
  unfold validName at h
  simp only [Bool.and_eq_true, bne_iff_ne, ne_eq] at h
  exact h.1.2

theorem validName_ne_nil {t : Name} (h : validName t = true) : t ≠ [] := by
  unfold validName at h
  simp only [Bool.and_eq_true, bne_iff_ne, ne_eq] at h
  exact h.1.1

theorem validName_nodot {t : Name} (h : validName t = true) : '.' ∉ t := by
  unfold validName at h
  simp only [Bool.and_eq_true, bne_iff_ne, ne_eq, Bool.not_eq_eq_eq_not, Bool.not_true] at h
  intro hc
  have := h.2
  simp [List.contains_iff_mem, hc] at this

theorem ne_of_head {t k : Name} (h : t.head? ≠ some '_') (hk : k.head? = some '_') : t ≠ k := by
  intro e; subst e; exact h hk

@[simp] theorem sec_beq_dc : (Sec.default == Sec.cells) = false := by decide
@[simp] theorem sec_beq_dr : (Sec.default == Sec.refs) = false := by decide
@[simp] theorem sec_beq_cd : (Sec.cells == Sec.default) = false := by decide
@[simp] theorem sec_beq_cr : (Sec.cells == Sec.refs) = false := by decide
@[simp] theorem sec_beq_rd : (Sec.refs == Sec.default) = false := by decide
@[simp] theorem sec_beq_rc : (Sec.refs == Sec.cells) = false := by decide

theorem selectParser_doc (d : Text) (sec : Sec) : selectParser (.doc d) sec = some .docstring := by
  simp [selectParser, parserOrder_eq, List.find?, parserCond]

theorem selectParser_import (sec : Sec) : selectParser .importFrom sec = some .importFrom := by
  simp [selectParser, parserOrder_eq, List.find?, parserCond]

theorem selectParser_name (rhs : Rhs) (sec : Sec) : selectParser (.assign kName rhs) sec = some .rename := by
  simp [selectParser, parserOrder_eq, List.find?, parserCond]

theorem selectParser_default (t : Name) (rhs : Rhs) (h : t ≠ kName) :
    selectParser (.assign t rhs) .default = some .attrAssign := by
  have hb : (t == kName) = false := beq_eq_false_iff_ne.mpr h
  simp [selectParser, parserOrder_eq, List.find?, parserCond, hb]

theorem selectParser_cells_attr (t : Name) (rhs : Rhs) (h : t ≠ kName) (hu : t.head? = some '_') :
    selectParser (.assign t rhs) .cells = some .attrAssign := by
  have hb : (t == kName) = false := beq_eq_false_iff_ne.mpr h
  simp [selectParser, parserOrder_eq, List.find?, parserCond, hb, hu]

theorem selectParser_cells_lambda (t : Name) (rhs : Rhs) (hu : t.head? ≠ some '_') :
    selectParser (.assign t rhs) .cells = some .lambdaAssign := by
  have h : t ≠ kName := ne_of_head hu (by decide)
  have hb : (t == kName) = false := beq_eq_false_iff_ne.mpr h
  have hc : (t.head? != some '_') = true := bne_iff_ne.mpr hu
  simp [selectParser, parserOrder_eq, List.find?, parserCond, hb, hc]

theorem selectParser_refs (t : Name) (rhs : Rhs) (h : t ≠ kName) :
    selectParser (.assign t rhs) .refs = some .refAssign := by
  have hb : (t == kName) = false := beq_eq_false_iff_ne.mpr h
  simp [selectParser, parserOrder_eq, List.find?, parserCond, hb]

theorem selectParser_formulaDef (text : Text) (sec : Sec) :
    selectParser (.funcDef kFormula text) sec = some .spaceFuncDef := by
  simp [selectParser, parserOrder_eq, List.find?, parserCond]

theorem selectParser_cellsDef (n : Name) (text : Text) (sec : Sec) (h : n ≠ kFormula) :
    selectParser (.funcDef n text) sec = some .cellsFuncDef := by
  have hb : (n == kFormula) = false := beq_eq_false_iff_ne.mpr h
  simp [selectParser, parserOrder_eq, List.find?, parserCond, hb]

/-! ## values -/

theorem evalOptBool_boolText (b : Bool) : evalOptBool (boolText b) = .ok (some b) := by
  cases b <;> decide

theorem evalOptBool_optBoolText (v : Option Bool) : evalOptBool (optBoolText v) = .ok v := by
  cases v with
  | none => decide
  | some b => cases b <;> decide

@[simp] theorem tag_pi : (tPickle == tInterface) = false := by decide
@[simp] theorem tag_ps : (tPickle == tIOSpec) = false := by decide
@[simp] theorem tag_pd : (tPickle == tDataSpec) = false := by decide
@[simp] theorem tag_pm : (tPickle == tModule) = false := by decide
@[simp] theorem tag_mi : (tModule == tInterface) = false := by decide
@[simp] theorem tag_ms : (tModule == tIOSpec) = false := by decide
@[simp] theorem tag_md : (tModule == tDataSpec) = false := by decide
@[simp] theorem tag_si : (tIOSpec == tInterface) = false := by decide

/-- what the reader decodes from the right-hand side the writer emits for a value -/
def decodedOf (model : Name) (owner : Path) : RefVal → Decoded
  | .literal t => .literal t
  | .pickled id => .pickle id
  | .interface tgt => .interface (absToRelTuple (idt model tgt) (idt model owner))
  | .module n => .module n
  | .iospec v s => .iospec v s

theorem decodeRhs_encodeRef (model : Name) (owner : Path) (mt : Name) (v : RefVal) :
    decodeRhs (encodeRef model owner mt v) =
      .ok (decodedOf model owner v, if isInterface v then some mt else none) := by
  cases v <;>
    simp [encodeRef, decodeRhs, selectDecoder, decoderOrder_eq, List.find?, decoderCond, decodedOf, isInterface]

/-! ## sections: a text without markers leaves the section alone -/

def nextSec' (sec : Sec) : Stmt → Sec
  | .marker s => s
  | _ => sec

/-- `parseStmts` with the section changed by explicit markers only -/
def parseStmts' (ctx : PCtx) : Sec → List Stmt → Except Err Parsed
  | _, [] => .ok Parsed.empty
  | sec, s :: rest =>
    match parseOne ctx sec s rest with
    | .error e => .error e
    | .ok p =>
      match parseStmts' ctx (nextSec' sec s) rest with
      | .error e => .error e
      | .ok q => .ok (p.append q)

theorem nextSec_clean (sec : Sec) (s : Stmt) (h : (markerIn (stmtText s)).isNone = true) :
    nextSec sec s = nextSec' sec s := by
  cases s <;> simp_all [nextSec, nextSec', Option.isNone_iff_eq_none]

theorem parseStmts_clean (ctx : PCtx) (l : List Stmt) (h : stmtsClean l = true) (sec : Sec) :
    parseStmts ctx sec l = parseStmts' ctx sec l := by
  induction l generalizing sec with
  | nil => rfl
  | cons s rest ih =>
    simp only [stmtsClean, List.all_cons, Bool.and_eq_true] at h
    simp only [parseStmts, parseStmts']
    rw [nextSec_clean sec s h.1, ih (by simpa [stmtsClean] using h.2)]
    rfl

/-! ## `Parsed` -/

@[simp] theorem Parsed.empty_append (q : Parsed) : Parsed.empty.append q = q := by
  cases q with
  | mk ops name spaces => cases name <;> cases spaces <;> rfl

theorem Parsed.ofOps_append_ofOps_append (a b : List Op) (q : Parsed) :
    (Parsed.ofOps a).append ((Parsed.ofOps b).append q) = (Parsed.ofOps (a ++ b)).append q := by
  cases q with
  | mk ops name spaces => cases name <;> cases spaces <;> simp [Parsed.ofOps, Parsed.append]

@[simp] theorem Parsed.ofOps_nil : Parsed.ofOps [] = Parsed.empty := rfl

@[simp] theorem Parsed.append_empty (q : Parsed) : q.append Parsed.empty = q := by
  cases q with
  | mk ops name spaces => simp [Parsed.empty, Parsed.append]

/-! ## cells -/

def readFormula : Formula → Formula
  | .lambda t => .lambda t
  | .defn _ n => .defn n n

def isLambda : Formula → Bool
  | .lambda _ => true
  | .defn _ _ => false

def headStmt (c : CellsD) : Stmt :=
  match c.formula with
  | .lambda t => .assign c.name (.text t)
  | .defn _ node => .funcDef c.name node

def trailerStmts (c : CellsD) : List Stmt :=
  (match c.formula, c.doc with | .lambda _, some d => [Stmt.doc d] | _, _ => []) ++
  (match c.allowNone with | some b => [Stmt.assign kAllowNone (.text (boolText b))] | none => []) ++
  (if c.isCached then [] else [Stmt.assign kIsCached (.text kFalse)])

def trailerOps (c : CellsD) : List Op :=
  (match c.formula, c.doc with | .lambda _, some d => [Op.cellsDoc c.name d] | _, _ => []) ++
  (match c.allowNone with | some b => [Op.cellsAllowNone c.name (some b)] | none => []) ++
  (if c.isCached then [] else [Op.cellsCached c.name false])

/-- the instructions the reader files for one cells definition -/
def cellOps (c : CellsD) : List Op :=
  Op.newCells c.name (readFormula c.formula) :: trailerOps c ++ [Op.loadPickle c.name c.inputs]

theorem cellStmts_eq (c : CellsD) : cellStmts c = headStmt c :: trailerStmts c := by
  unfold cellStmts headStmt trailerStmts
  cases hf : c.formula <;> cases hd : c.doc <;> cases ha : c.allowNone <;> simp

/-- the look-ahead of a cells parser finds nothing to take in `R` -/
def Stops (R : List Stmt) : Prop := ∀ cn wd, takeTrailers cn wd R = .ok []

theorem stops_nil : Stops [] := fun _ _ => rfl

@[simp] theorem kIsCached_ne_kAllowNone : (kIsCached = kAllowNone) = False := by
  simp only [eq_iff_iff, iff_false]; decide

theorem stops_headStmt (c : CellsD) (X : List Stmt) (hv : validName c.name = true) :
    Stops (headStmt c :: X) := by
  intro cn wd
  have h1 : c.name ≠ kAllowNone := ne_of_head (validName_head hv) (by decide)
  have h2 : c.name ≠ kIsCached := ne_of_head (validName_head hv) (by decide)
  unfold headStmt
  cases c.formula <;> simp [takeTrailers, h1, h2]

theorem evalOptBool_kFalse : evalOptBool kFalse = .ok (some false) := by decide

theorem takeTrailers_trailers (c : CellsD) (R : List Stmt) (hR : Stops R) :
    takeTrailers c.name (isLambda c.formula) (trailerStmts c ++ R) = .ok (trailerOps c) := by
  unfold trailerStmts trailerOps
  cases hf : c.formula <;> cases hd : c.doc <;> cases ha : c.allowNone <;> cases hc : c.isCached <;>
    simp [takeTrailers, isLambda, evalOptBool_boolText, evalOptBool_kFalse, hR c.name]

@[simp] theorem kAllowNone_ne_kName : (kAllowNone = kName) = False := by
  simp only [eq_iff_iff, iff_false]; decide
@[simp] theorem kIsCached_ne_kName : (kIsCached = kName) = False := by
  simp only [eq_iff_iff, iff_false]; decide
@[simp] theorem kAllowNone_ne_kFormula : (kAllowNone = kFormula) = False := by
  simp only [eq_iff_iff, iff_false]; decide
@[simp] theorem kAllowNone_ne_kBases : (kAllowNone = kBases) = False := by
  simp only [eq_iff_iff, iff_false]; decide
@[simp] theorem kAllowNone_ne_kSpaces : (kAllowNone = kSpaces) = False := by
  simp only [eq_iff_iff, iff_false]; decide
@[simp] theorem kIsCached_ne_kFormula : (kIsCached = kFormula) = False := by
  simp only [eq_iff_iff, iff_false]; decide
@[simp] theorem kIsCached_ne_kBases : (kIsCached = kBases) = False := by
  simp only [eq_iff_iff, iff_false]; decide
@[simp] theorem kIsCached_ne_kSpaces : (kIsCached = kSpaces) = False := by
  simp only [eq_iff_iff, iff_false]; decide
@[simp] theorem kBases_ne_kFormula : (kBases = kFormula) = False := by
  simp only [eq_iff_iff, iff_false]; decide
@[simp] theorem kSpaces_ne_kFormula : (kSpaces = kFormula) = False := by
  simp only [eq_iff_iff, iff_false]; decide
@[simp] theorem kSpaces_ne_kBases : (kSpaces = kBases) = False := by
  simp only [eq_iff_iff, iff_false]; decide

theorem parseStmts'_skip (ctx : PCtx) (sec : Sec) (s : Stmt) (X : List Stmt)
    (h1 : parseOne ctx sec s X = .ok Parsed.empty) (h2 : nextSec' sec s = sec) :
    parseStmts' ctx sec (s :: X) = parseStmts' ctx sec X := by
  simp only [parseStmts', h1, h2]
  cases parseStmts' ctx sec X <;> simp

/-- in the cells section the statements after a cells definition file nothing themselves -/
theorem parseStmts'_trailers (ctx : PCtx) (c : CellsD) (X : List Stmt) :
    parseStmts' ctx .cells (trailerStmts c ++ X) = parseStmts' ctx .cells X := by
  have hd : ∀ (d : Text) (rest : List Stmt), parseOne ctx .cells (.doc d) rest = .ok Parsed.empty := by
    intro d rest
    simp [parseOne, selectParser_doc]
  have ha : ∀ (v : Text) (rest : List Stmt),
      parseOne ctx .cells (.assign kAllowNone (.text v)) rest = .ok Parsed.empty := by
    intro v rest
    simp [parseOne, selectParser_cells_attr kAllowNone _ (by simp) (by decide)]
  have hc : ∀ (v : Text) (rest : List Stmt),
      parseOne ctx .cells (.assign kIsCached (.text v)) rest = .ok Parsed.empty := by
    intro v rest
    simp [parseOne, selectParser_cells_attr kIsCached _ (by simp) (by decide)]
  have sd : ∀ (d : Text) (Y : List Stmt), parseStmts' ctx .cells (.doc d :: Y) = parseStmts' ctx .cells Y :=
    fun d Y => parseStmts'_skip _ _ _ _ (hd d Y) rfl
  have sa : ∀ (v : Text) (Y : List Stmt),
      parseStmts' ctx .cells (.assign kAllowNone (.text v) :: Y) = parseStmts' ctx .cells Y :=
    fun v Y => parseStmts'_skip _ _ _ _ (ha v Y) rfl
  have sc : ∀ (v : Text) (Y : List Stmt),
      parseStmts' ctx .cells (.assign kIsCached (.text v) :: Y) = parseStmts' ctx .cells Y :=
    fun v Y => parseStmts'_skip _ _ _ _ (hc v Y) rfl
  unfold trailerStmts
  cases hf : c.formula <;> cases hdoc : c.doc <;> cases hal : c.allowNone <;> cases hca : c.isCached <;>
    simp [sd, sa, sc]

theorem parse_cells (ctx : PCtx) (hm : ctx.isModel = false) (cs : List CellsD) (X : List Stmt) (q : Parsed)
    (hv : ∀ c ∈ cs, validName c.name = true)
    (hdata : ∀ c ∈ cs, cellsEntries ctx.data c.name = c.inputs)
    (hX : Stops X) (hq : parseStmts' ctx .cells X = .ok q) :
    parseStmts' ctx .cells (cs.flatMap cellStmts ++ X) = .ok ((Parsed.ofOps (cs.flatMap cellOps)).append q) := by
  induction cs with
  | nil => simpa using hq
  | cons c rest ih =>
    have hvc := hv c (by simp)
    have ih' := ih (fun c hc => hv c (by simp [hc])) (fun c hc => hdata c (by simp [hc]))
    have hR : Stops (rest.flatMap cellStmts ++ X) := by
      cases rest with
      | nil => simpa using hX
      | cons c' rest' =>
        simp only [List.flatMap_cons, cellStmts_eq, List.cons_append, List.append_assoc]
        exact stops_headStmt c' _ (hv c' (by simp))
    simp only [List.flatMap_cons, cellStmts_eq, List.cons_append, List.append_assoc]
    have hname : c.name ≠ kFormula := ne_of_head (validName_head hvc) (by decide)
    have hhead : parseOne ctx .cells (headStmt c) (trailerStmts c ++ (rest.flatMap cellStmts ++ X)) =
        .ok (Parsed.ofOps (cellOps c)) := by
      have htr := takeTrailers_trailers c _ hR
      unfold headStmt cellOps
      cases hf : c.formula with
      | lambda t =>
        rw [hf] at htr
        simp only [isLambda] at htr
        simp [parseOne, selectParser_cells_lambda c.name _ (validName_head hvc), hm, htr, readFormula,
          hdata c (by simp)]
      | defn src node =>
        rw [hf] at htr
        simp only [isLambda] at htr
        simp [parseOne, selectParser_cellsDef c.name _ _ hname, hm, htr, readFormula, hdata c (by simp)]
    have hsec : nextSec' .cells (headStmt c) = .cells := by
      unfold headStmt; cases c.formula <;> rfl
    simp only [parseStmts', hhead, hsec, parseStmts'_trailers, ih']
    rw [Parsed.ofOps_append_ofOps_append]

/-! ## references -/

/-- the instruction the reader files for one reference assignment -/
def refOpOf (isModel : Bool) (model : Name) (owner : Path) (r : Name × RefVal × Name) : Op :=
  if !isModel && isInterface r.2.1 then .setRef r.1 (decodedOf model owner r.2.1) r.2.2
  else .setAttr r.1 (decodedOf model owner r.2.1)

theorem parseOne_ref (ctx : PCtx) (model : Name) (owner : Path) (r : Name × RefVal × Name) (rest : List Stmt)
    (hv : validName r.1 = true) :
    parseOne ctx .refs (Stmt.assign r.1 (encodeRef model owner r.2.2 r.2.1)) rest =
      .ok (Parsed.ofOps [refOpOf ctx.isModel model owner r]) := by
  have hn : r.1 ≠ kName := ne_of_head (validName_head hv) (by decide)
  obtain ⟨x, v, mt⟩ := r
  simp only [parseOne, selectParser_refs _ _ hn, decodeRhs_encodeRef, refOpOf]
  cases hm : ctx.isModel <;> cases v <;> simp [isInterface, decodedOf]

theorem parse_ref_list (ctx : PCtx) (model : Name) (owner : Path) (rs : List (Name × RefVal × Name))
    (hv : ∀ r ∈ rs, validName r.1 = true) :
    parseStmts' ctx .refs (rs.map (fun r => Stmt.assign r.1 (encodeRef model owner r.2.2 r.2.1))) =
      .ok (Parsed.ofOps (rs.map (refOpOf ctx.isModel model owner))) := by
  induction rs with
  | nil => rfl
  | cons r rest ih =>
    have ih' := ih (fun r hr => hv r (by simp [hr]))
    simp only [List.map_cons, parseStmts', parseOne_ref ctx model owner r _ (hv r (by simp)), nextSec', ih']
    simp [Parsed.ofOps, Parsed.append]

theorem parse_refs (ctx : PCtx) (model : Name) (owner : Path) (rs : List (Name × RefVal × Name)) (sec : Sec)
    (hv : ∀ r ∈ rs, validName r.1 = true) :
    parseStmts' ctx sec (refStmts model owner rs) =
      .ok (Parsed.ofOps (rs.map (refOpOf ctx.isModel model owner))) := by
  unfold refStmts
  cases rs with
  | nil => rfl
  | cons r rest =>
    have h := parse_ref_list ctx model owner (r :: rest) hv
    simp only [List.isEmpty_cons, Bool.false_eq_true, if_false, List.cons_append, List.nil_append]
    rw [show parseStmts' ctx sec (Stmt.marker .refs :: List.map (fun r => Stmt.assign r.1
          (encodeRef model owner r.2.2 r.2.1)) (r :: rest)) =
        (match parseStmts' ctx .refs (List.map (fun r => Stmt.assign r.1
          (encodeRef model owner r.2.2 r.2.1)) (r :: rest)) with
         | .error e => .error e
         | .ok q => .ok (Parsed.empty.append q)) from rfl, h]
    simp

theorem stops_refStmts (model : Name) (owner : Path) (rs : List (Name × RefVal × Name))
    (hv : ∀ r ∈ rs, validName r.1 = true) : Stops (refStmts model owner rs) := by
  intro cn wd
  unfold refStmts
  cases rs with
  | nil => rfl
  | cons r rest =>
    have hvr := hv r (by simp)
    have h1 : r.1 ≠ kAllowNone := ne_of_head (validName_head hvr) (by decide)
    have h2 : r.1 ≠ kIsCached := ne_of_head (validName_head hvr) (by decide)
    simp [takeTrailers, h1, h2]

/-! ## relative names (the statements of `Props/C04.lean`, restated here for the proofs) -/

theorem relToAbsTuple_absToRelTuple (t ns : List Elem) : relToAbsTuple (absToRelTuple t ns) ns = .ok t := by
  have h2 := sharedLen_le_right t ns
  simp only [absToRelTuple, relToAbsTuple, allDots_dotsStr, if_true]
  have hlen : (dotsStr (ns.length - sharedLen t ns + 1)).length = ns.length - sharedLen t ns + 1 := by
    simp [dotsStr]
  have h1 := sharedLen_le_left t ns
  rw [hlen, pySliceTo_shared ns _ h2, take_sharedLen]
  have : t.length - (t.length - sharedLen t ns) = sharedLen t ns := by omega
  rw [this, List.take_append_drop]

theorem relToAbs_absToRel (t ns : List Char) (h : ValidDotted t) : relToAbs (absToRel t ns) ns = t := by
  simp only [absToRel, relToAbs]
  exact (roundtrip_core (splitDot t) (splitDot ns) _ (sharedLen_le_left _ _) (sharedLen_le_right _ _)
    (take_sharedLen _ _) (splitDot_dotfree t)
    (fun w hw => h w (List.mem_of_mem_drop (List.mem_of_mem_head? hw)))).trans (joinDot_splitDot t)

theorem splitDot_dotted (model : Name) (p : Path) (hm : validName model = true)
    (hp : p.all validName = true) : splitDot (dotted model p) = model :: p := by
  unfold dotted
  apply splitDot_joinDot _ (by simp)
  intro w hw
  rcases List.mem_cons.mp hw with rfl | hw
  · exact validName_nodot hm
  · exact validName_nodot (List.all_eq_true.mp hp w hw)

theorem validDotted_dotted (model : Name) (p : Path) (hm : validName model = true)
    (hp : p.all validName = true) : ValidDotted (dotted model p) := by
  intro w hw
  rw [splitDot_dotted model p hm hp] at hw
  rcases List.mem_cons.mp hw with rfl | hw
  · exact validName_ne_nil hm
  · exact validName_ne_nil (List.all_eq_true.mp hp w hw)

theorem resolveBase_dotted (model : Name) (p : Path) (hm : validName model = true)
    (hp : p.all validName = true) : resolveBase model (dotted model p) = some p := by
  simp [resolveBase, splitDot_dotted model p hm hp]

/-! ## the file of a space -/

def readOptFormula : Option Formula → Option Formula
  | none => none
  | some f => some (readFormula f)

/-- the instructions filed for the statements of a space's `__init__.py` -/
def stmtOpsOfSpace (model : Name) (parent : Path) (i : SpaceInfo) : List Op :=
  (match i.doc with | some d => [Op.setDoc d] | none => []) ++
  [Op.setFormula (readOptFormula i.formula), Op.addBases (i.bases.map (dotted model)),
   Op.setAllowNone i.allowNone] ++
  i.cells.flatMap cellOps ++
  (spaceRefs i).map (refOpOf false model (parent ++ [i.name]))

theorem startsLambda_ne_kNone {t : Text} (h : startsLambda t = true) : t ≠ kNone := by
  intro e; subst e; revert h; decide

theorem parseStmts'_cons_ok (ctx : PCtx) (sec : Sec) (s : Stmt) (rest : List Stmt) (p : Parsed)
    (h : parseOne ctx sec s rest = .ok p) :
    parseStmts' ctx sec (s :: rest) =
      (match parseStmts' ctx (nextSec' sec s) rest with
       | .error e => .error e
       | .ok q => .ok (p.append q)) := by
  simp [parseStmts', h]

theorem parse_header (model : Name) (parent : Path) (i : SpaceInfo) (kids : List Name)
    (data : List (Name × DataFile)) (T : List Stmt) (q : List Op)
    (hmodel : validName model = true)
    (hformula : match i.formula with | some (.lambda t) => startsLambda t = true | _ => True)
    (hbases : ∀ b ∈ i.bases, b.all validName = true)
    (hT : parseStmts' ⟨false, model, parent, data⟩ .default T = .ok (Parsed.ofOps q)) :
    parseStmts' ⟨false, model, parent, data⟩ .default
      (docStmt i.doc ++
       [Stmt.importFrom, formulaStmt i.formula,
        Stmt.assign kBases (.names (i.bases.map (fun b => absToRel (dotted model b) (dotted model parent)))),
        Stmt.assign kAllowNone (.text (optBoolText i.allowNone)), Stmt.assign kSpaces (.names kids)] ++ T) =
      .ok ⟨(match i.doc with | some d => [Op.setDoc d] | none => []) ++
           [Op.setFormula (readOptFormula i.formula), Op.addBases (i.bases.map (dotted model)),
            Op.setAllowNone i.allowNone] ++ q, none, some kids⟩ := by
  have hbasesRT : (i.bases.map (fun b => absToRel (dotted model b) (dotted model parent))).map
      (fun b => relToAbs b (dotted model parent)) = i.bases.map (dotted model) := by
    rw [List.map_map]
    apply List.map_congr_left
    intro b hb
    exact relToAbs_absToRel _ _ (validDotted_dotted model b hmodel (hbases b hb))
  have hF : ∀ rest, parseOne ⟨false, model, parent, data⟩ .default (formulaStmt i.formula) rest =
      .ok (Parsed.ofOps [Op.setFormula (readOptFormula i.formula)]) ∧
      nextSec' .default (formulaStmt i.formula) = .default := by
    intro rest
    cases hf : i.formula with
    | none =>
      simp [formulaStmt, parseOne, selectParser_default kFormula _ (by decide), readOptFormula, nextSec']
    | some f =>
      cases f with
      | lambda t =>
        rw [hf] at hformula
        have := startsLambda_ne_kNone hformula
        simp [formulaStmt, parseOne, selectParser_default kFormula _ (by decide), readOptFormula, readFormula,
          nextSec', this]
      | defn src node =>
        simp [formulaStmt, parseOne, selectParser_formulaDef, readOptFormula, readFormula, nextSec']
  have hbody : parseStmts' ⟨false, model, parent, data⟩ .default
      ([Stmt.importFrom, formulaStmt i.formula,
        Stmt.assign kBases (.names (i.bases.map (fun b => absToRel (dotted model b) (dotted model parent)))),
        Stmt.assign kAllowNone (.text (optBoolText i.allowNone)), Stmt.assign kSpaces (.names kids)] ++ T) =
      .ok ⟨[Op.setFormula (readOptFormula i.formula), Op.addBases (i.bases.map (dotted model)),
            Op.setAllowNone i.allowNone] ++ q, none, some kids⟩ := by
    simp only [List.cons_append, List.nil_append]
    have hI : ∀ rest, parseOne ⟨false, model, parent, data⟩ .default Stmt.importFrom rest = .ok Parsed.empty := by
      intro rest; simp [parseOne, selectParser_import]
    have hB : ∀ rest, parseOne ⟨false, model, parent, data⟩ .default
        (Stmt.assign kBases (.names (i.bases.map (fun b => absToRel (dotted model b) (dotted model parent))))) rest =
        .ok (Parsed.ofOps [Op.addBases (i.bases.map (dotted model))]) := by
      intro rest; simp [parseOne, selectParser_default kBases _ (by decide), hbasesRT]
    have hA : ∀ rest, parseOne ⟨false, model, parent, data⟩ .default
        (Stmt.assign kAllowNone (.text (optBoolText i.allowNone))) rest =
        .ok (Parsed.ofOps [Op.setAllowNone i.allowNone]) := by
      intro rest; simp [parseOne, selectParser_default kAllowNone _ (by decide), evalOptBool_optBoolText]
    have hS : ∀ rest, parseOne ⟨false, model, parent, data⟩ .default
        (Stmt.assign kSpaces (.names kids)) rest = .ok ⟨[], none, some kids⟩ := by
      intro rest; simp [parseOne, selectParser_default kSpaces _ (by decide)]
    rw [parseStmts'_cons_ok _ _ _ _ _ (hI _)]
    simp only [nextSec']
    rw [parseStmts'_cons_ok _ _ _ _ _ (hF _).1, (hF []).2, parseStmts'_cons_ok _ _ _ _ _ (hB _)]
    simp only [nextSec']
    rw [parseStmts'_cons_ok _ _ _ _ _ (hA _)]
    simp only [nextSec']
    rw [parseStmts'_cons_ok _ _ _ _ _ (hS _)]
    simp only [nextSec', hT]
    simp [Parsed.ofOps, Parsed.append, Parsed.empty]
  cases hd : i.doc with
  | none => simpa [docStmt] using hbody
  | some d =>
    simp only [docStmt, List.cons_append, List.nil_append, List.append_assoc] at hbody ⊢
    have hD : ∀ rest, parseOne ⟨false, model, parent, data⟩ .default (Stmt.doc d) rest =
        .ok (Parsed.ofOps [Op.setDoc d]) := by
      intro rest; simp [parseOne, selectParser_doc]
    rw [parseStmts'_cons_ok _ _ _ _ _ (hD _)]
    simp only [nextSec', hbody]
    simp [Parsed.ofOps, Parsed.append]

theorem parse_spaceStmts (model : Name) (parent : Path) (i : SpaceInfo) (kids : List Name)
    (data : List (Name × DataFile))
    (hmodel : validName model = true)
    (hcells : ∀ c ∈ i.cells, validName c.name = true)
    (hdata : ∀ c ∈ i.cells, cellsEntries data c.name = c.inputs)
    (hrefs : ∀ r ∈ i.refs, validName r.name = true)
    (hformula : match i.formula with | some (.lambda t) => startsLambda t = true | _ => True)
    (hbases : ∀ b ∈ i.bases, b.all validName = true) :
    parseStmts' ⟨false, model, parent, data⟩ .default (spaceStmts model parent i kids) =
      .ok ⟨stmtOpsOfSpace model parent i, none, some kids⟩ := by
  have hrefs' : ∀ r ∈ spaceRefs i, validName r.1 = true := by
    intro r hr
    simp only [spaceRefs, List.mem_map] at hr
    obtain ⟨r', hr', rfl⟩ := hr
    exact hrefs r' hr'
  have hR := fun sec => parse_refs ⟨false, model, parent, data⟩ model (parent ++ [i.name]) (spaceRefs i) sec hrefs'
  have hstop := stops_refStmts model (parent ++ [i.name]) (spaceRefs i) hrefs'
  have hC : parseStmts' ⟨false, model, parent, data⟩ .default
      ((if i.cells.isEmpty then [] else [Stmt.marker .cells]) ++ i.cells.flatMap cellStmts ++
        refStmts model (parent ++ [i.name]) (spaceRefs i)) =
      .ok (Parsed.ofOps (i.cells.flatMap cellOps ++ (spaceRefs i).map (refOpOf false model (parent ++ [i.name])))) := by
    cases hc : i.cells with
    | nil => simpa using hR .default
    | cons c rest =>
      have := parse_cells ⟨false, model, parent, data⟩ rfl (c :: rest)
        (refStmts model (parent ++ [i.name]) (spaceRefs i)) _
        (by rw [← hc]; exact hcells) (by rw [← hc]; exact hdata) hstop (hR .cells)
      simp only [List.isEmpty_cons, Bool.false_eq_true, if_false, List.cons_append, List.nil_append,
        List.append_assoc]
      rw [show parseStmts' ⟨false, model, parent, data⟩ .default (Stmt.marker .cells ::
            (List.flatMap cellStmts (c :: rest) ++ refStmts model (parent ++ [i.name]) (spaceRefs i))) =
          (match parseStmts' ⟨false, model, parent, data⟩ .cells (List.flatMap cellStmts (c :: rest) ++
              refStmts model (parent ++ [i.name]) (spaceRefs i)) with
           | .error e => .error e
           | .ok q => .ok (Parsed.empty.append q)) from rfl, this]
      simp [Parsed.ofOps, Parsed.append, Parsed.empty]
  have := parse_header model parent i kids data _ _ hmodel hformula hbases hC
  unfold spaceStmts stmtOpsOfSpace
  simpa [List.append_assoc] using this

/-! ## the `_data` files beside a space -/

theorem lookup_cellsData (cs : List CellsD) (tail : List (Name × DataFile)) (c : CellsD)
    (hc : c ∈ cs) (hn : (cs.map (·.name)).Nodup) (htail : tail.lookup c.name = none) :
    cellsEntries ((cs.filter (fun c => !c.inputs.isEmpty)).map (fun c => (c.name, DataFile.cellsData c.inputs)) ++ tail)
      c.name = c.inputs := by
  induction cs with
  | nil => cases hc
  | cons x rest ih =>
    simp only [List.map_cons, List.nodup_cons, List.mem_map, not_exists, not_and] at hn
    rcases List.mem_cons.mp hc with rfl | hc'
    · cases hx : c.inputs with
      | nil =>
        have hnot : ∀ y ∈ rest.filter (fun c => !c.inputs.isEmpty), y.name ≠ c.name := by
          intro y hy e
          exact hn.1 y (List.mem_filter.mp hy).1 e
        have hl : ∀ (l : List CellsD), (∀ y ∈ l, y.name ≠ c.name) →
            (l.map (fun c => (c.name, DataFile.cellsData c.inputs)) ++ tail).lookup c.name = none := by
          intro l hl
          induction l with
          | nil => simpa using htail
          | cons y l ihl =>
            have hy : (c.name == y.name) = false := beq_eq_false_iff_ne.mpr (fun e => hl y (by simp) e.symm)
            simp only [List.map_cons, List.cons_append, List.lookup_cons, hy]
            exact ihl (fun z hz => hl z (by simp [hz]))
        simp [cellsEntries, List.filter_cons, hx, hl _ hnot]
      | cons e es =>
        simp [cellsEntries, List.filter_cons, hx, List.lookup_cons]
    · have hne : (c.name == x.name) = false := beq_eq_false_iff_ne.mpr (fun e => hn.1 c hc' e)
      have := ih hc' hn.2
      by_cases hx : x.inputs.isEmpty
      · simpa [List.filter_cons, hx] using this
      · simp only [cellsEntries, List.filter_cons, hx, Bool.not_false, if_true, List.map_cons, List.cons_append,
          List.lookup_cons, hne] at this ⊢
        simpa [cellsEntries] using this

theorem fDynInputs_head : fDynInputs.head? = some '_' := by decide

theorem cellsEntries_spaceData (model : Name) (path : Path) (i : SpaceInfo) (c : CellsD) (hc : c ∈ i.cells)
    (hn : (i.cells.map (·.name)).Nodup) (hv : validName c.name = true) :
    cellsEntries (spaceData model path i) c.name = c.inputs := by
  unfold spaceData
  apply lookup_cellsData _ _ _ hc hn
  have hne : (c.name == fDynInputs) = false :=
    beq_eq_false_iff_ne.mpr (ne_of_head (validName_head hv) fDynInputs_head)
  by_cases hd : i.dynInputs.isEmpty <;> simp [hd, List.lookup_cons, hne]

def dynOpOf (model : Name) (path : Path) (d : DynInput) : Op :=
  .dynInput (absToRelTuple (idt model path ++ d.addr) (idt model path)) d.key d.val

theorem dynOps_spaceData (model : Name) (path : Path) (i : SpaceInfo)
    (hv : ∀ c ∈ i.cells, validName c.name = true) :
    dynOps (spaceData model path i) = i.dynInputs.map (dynOpOf model path) := by
  unfold spaceData
  simp only [dynOps]
  have hskip : ∀ (l : List CellsD) (tail : List (Name × DataFile)), (∀ c ∈ l, validName c.name = true) →
      (l.map (fun c => (c.name, DataFile.cellsData c.inputs)) ++ tail).lookup fDynInputs = tail.lookup fDynInputs := by
    intro l tail hl
    induction l with
    | nil => rfl
    | cons y l ih =>
      have hy : (fDynInputs == y.name) = false :=
        beq_eq_false_iff_ne.mpr (fun e => ne_of_head (validName_head (hl y (by simp))) fDynInputs_head e.symm)
      simp only [List.map_cons, List.cons_append, List.lookup_cons, hy]
      exact ih (fun z hz => hl z (by simp [hz]))
  rw [hskip _ _ (fun c hc => hv c (List.mem_filter.mp hc).1)]
  cases hd : i.dynInputs with
  | nil => simp
  | cons d ds => simp [List.lookup_cons, dynOpOf, List.map_map, Function.comp_def]

/-! ## the tree -/

def opsOfSpace (model : Name) (parent : Path) (i : SpaceInfo) : List Op :=
  stmtOpsOfSpace model parent i ++ i.dynInputs.map (dynOpOf model (parent ++ [i.name]))

mutual
def nodeOf (model : Name) (parent : Path) : SpaceD → PNode
  | .mk i cs => .mk i.name (opsOfSpace model parent i) (nodesOf model (parent ++ [i.name]) cs)
def nodesOf (model : Name) (parent : Path) : List SpaceD → List PNode
  | [] => []
  | s :: ss => nodeOf model parent s :: nodesOf model parent ss
end

theorem nodesOf_eq_map (model : Name) (parent : Path) (cs : List SpaceD) :
    nodesOf model parent cs = cs.map (nodeOf model parent) := by
  induction cs with
  | nil => rfl
  | cons s ss ih => simp [nodesOf, ih]

theorem writeSpaces_eq_map (model : Name) (parent : Path) (cs : List SpaceD) :
    writeSpaces model parent cs = cs.map (writeSpace model parent) := by
  induction cs with
  | nil => rfl
  | cons s ss ih => simp [writeSpaces, ih]

theorem writeSpace_name (model : Name) (parent : Path) (s : SpaceD) : (writeSpace model parent s).name = s.name := by
  cases s; rfl

theorem findDir_write (model : Name) (parent : Path) (cs : List SpaceD) (s : SpaceD) (hs : s ∈ cs)
    (hn : (cs.map SpaceD.name).Nodup) :
    findDir (writeSpaces model parent cs) s.name = some (writeSpace model parent s) := by
  rw [writeSpaces_eq_map]
  induction cs with
  | nil => cases hs
  | cons x rest ih =>
    simp only [List.map_cons, List.nodup_cons, List.mem_map, not_exists, not_and] at hn
    rcases List.mem_cons.mp hs with rfl | hs'
    · simp [findDir, List.find?_cons, writeSpace_name]
    · have hne : (x.name == s.name) = false := beq_eq_false_iff_ne.mpr (fun e => hn.1 s hs' e.symm)
      simp only [findDir, List.map_cons, List.find?_cons, writeSpace_name, hne]
      exact ih hs' hn.2

theorem mapE_map_ok {α β γ : Type} (f : β → Except Err γ) (g : α → β) (h : α → γ) (l : List α)
    (hl : ∀ x ∈ l, f (g x) = .ok (h x)) : mapE f (l.map g) = .ok (l.map h) := by
  induction l with
  | nil => rfl
  | cons x rest ih =>
    simp [mapE, hl x (by simp), ih (fun y hy => hl y (by simp [hy]))]

theorem depth_le_depthL (s : SpaceD) (cs : List SpaceD) (hs : s ∈ cs) : s.depth ≤ SpaceD.depthL cs := by
  induction cs with
  | nil => cases hs
  | cons x rest ih =>
    simp only [SpaceD.depthL]
    rcases List.mem_cons.mp hs with rfl | hs'
    · exact Nat.le_max_left _ _
    · exact Nat.le_trans (ih hs') (Nat.le_max_right _ _)

theorem spacesWF_mem (ctx : Ctx) (bs : BaseRel) (cs : List SpaceD) (h : spacesWF ctx bs cs = true)
    (s : SpaceD) (hs : s ∈ cs) : spaceWF ctx bs s = true := by
  induction cs with
  | nil => cases hs
  | cons x rest ih =>
    simp only [spacesWF, Bool.and_eq_true] at h
    rcases List.mem_cons.mp hs with rfl | hs'
    · exact h.1
    · exact ih h.2 hs'

theorem spacesClean_mem (model : Name) (parent : Path) (cs : List SpaceD)
    (h : spacesClean model parent cs = true) (s : SpaceD) (hs : s ∈ cs) : spaceClean model parent s = true := by
  induction cs with
  | nil => cases hs
  | cons x rest ih =>
    simp only [spacesClean, Bool.and_eq_true] at h
    rcases List.mem_cons.mp hs with rfl | hs'
    · exact h.1
    · exact ih h.2 hs'

/-- what `infoWF` gives the parser -/
theorem infoWF_parts (ctx : Ctx) (bs : BaseRel) (i : SpaceInfo) (h : infoWF ctx bs i = true) :
    validName i.name = true ∧ (∀ c ∈ i.cells, cellsWF c = true) ∧ (i.cells.map (·.name)).Nodup ∧
    (∀ r ∈ i.refs, validName r.name = true ∧ refValWF ctx bs r.val = true) ∧ (i.refs.map (·.name)).Nodup ∧
    (match i.formula with | some (.lambda t) => startsLambda t = true | _ => True) ∧
    (∀ b ∈ i.bases, ctx.spaces.contains b = true ∧ b.all validName = true) := by
  unfold infoWF at h
  simp only [Bool.and_eq_true, decide_eq_true_eq] at h
  obtain ⟨⟨⟨⟨⟨⟨h1, h2⟩, h3⟩, h4⟩, h5⟩, h6⟩, h7⟩ := h
  have h7' := List.all_eq_true.mp h7
  simp only [Bool.and_eq_true] at h7'
  have h4' := List.all_eq_true.mp h4
  simp only [Bool.and_eq_true] at h4'
  refine ⟨h1, List.all_eq_true.mp h2, h3, h4', h5, ?_, h7'⟩
  cases hf : i.formula with
  | none => trivial
  | some f =>
    cases f with
    | lambda t => rw [hf] at h6; exact h6
    | defn _ _ => trivial

theorem cellsWF_valid {c : CellsD} (h : cellsWF c = true) : validName c.name = true := by
  unfold cellsWF at h
  simp only [Bool.and_eq_true] at h
  exact h.1

theorem parseSpace_write (model : Name) (hmodel : validName model = true) (ctx : Ctx) (bs : BaseRel) :
    ∀ (fuel : Nat) (parent : Path) (cs : List SpaceD) (s : SpaceD), s ∈ cs → (cs.map SpaceD.name).Nodup →
      spaceWF ctx bs s = true → spaceClean model parent s = true → s.depth ≤ fuel →
      parseSpace model fuel parent (writeSpaces model parent cs) s.name = .ok (nodeOf model parent s) := by
  intro fuel
  induction fuel with
  | zero =>
    intro parent cs s _ _ _ _ hd
    cases s with
    | mk i kids => simp [SpaceD.depth] at hd
  | succ fuel ih =>
    intro parent cs s hs hn hwf hclean hd
    cases s with
    | mk i kids =>
      simp only [spaceWF, Bool.and_eq_true, decide_eq_true_eq] at hwf
      obtain ⟨⟨hinfo, hkn⟩, hkids⟩ := hwf
      obtain ⟨hname, hcells, hcn, hrefs, _, hformula, hbases⟩ := infoWF_parts ctx bs i hinfo
      simp only [spaceClean, Bool.and_eq_true] at hclean
      have hcv : ∀ c ∈ i.cells, validName c.name = true := fun c hc => cellsWF_valid (hcells c hc)
      have hparse := parse_spaceStmts model parent i (kids.map SpaceD.name)
        (spaceData model (parent ++ [i.name]) i) hmodel hcv
        (fun c hc => cellsEntries_spaceData model _ i c hc hcn (hcv c hc))
        (fun r hr => (hrefs r hr).1) hformula (fun b hb => (hbases b hb).2)
      rw [← parseStmts_clean _ _ hclean.1] at hparse
      have hkidsE : mapE (parseSpace model fuel (parent ++ [i.name]) (writeSpaces model (parent ++ [i.name]) kids))
          (kids.map SpaceD.name) = .ok (kids.map (nodeOf model (parent ++ [i.name]))) := by
        apply mapE_map_ok
        intro k hk
        apply ih _ _ _ hk hkn (spacesWF_mem ctx bs kids hkids k hk)
          (spacesClean_mem model _ kids hclean.2 k hk)
        have := depth_le_depthL k kids hk
        simp only [SpaceD.depth] at hd
        omega
      have hfind := findDir_write model parent cs (.mk i kids) hs hn
      simp only [SpaceD.name, SpaceD.info] at hfind
      simp only [parseSpace, SpaceD.name, SpaceD.info, hfind, writeSpace, Dir.init, Dir.data, Dir.subs, hparse,
        hkidsE, nodeOf, opsOfSpace, nodesOf_eq_map,
        dynOps_spaceData model (parent ++ [i.name]) i hcv]

/-! ## the model's file -/

def modelOpsOf (m : MDesc) : List Op :=
  (match m.doc with | some d => [Op.setDoc d] | none => []) ++ [Op.setAllowNone (some m.allowNone)] ++
  (modelRefs m).map (refOpOf true m.name [])

theorem parse_modelStmts (m : MDesc) (data : List (Name × DataFile))
    (hrefs : ∀ r ∈ m.refs, validName r.1 = true) :
    parseStmts' ⟨true, [], [], data⟩ .default (modelStmts m) =
      .ok ⟨modelOpsOf m, some m.name, some (m.spaces.map SpaceD.name)⟩ := by
  have hrefs' : ∀ r ∈ modelRefs m, validName r.1 = true := by
    intro r hr
    simp only [modelRefs, List.mem_map] at hr
    obtain ⟨r', hr', rfl⟩ := hr
    exact hrefs r' hr'
  have hR := parse_refs ⟨true, [], [], data⟩ m.name [] (modelRefs m) .default hrefs'
  have hI : ∀ rest, parseOne ⟨true, [], [], data⟩ .default Stmt.importFrom rest = .ok Parsed.empty := by
    intro rest; simp [parseOne, selectParser_import]
  have hN : ∀ rest, parseOne ⟨true, [], [], data⟩ .default (Stmt.assign kName (.str m.name)) rest =
      .ok ⟨[], some m.name, none⟩ := by
    intro rest; simp [parseOne, selectParser_name]
  have hA : ∀ rest, parseOne ⟨true, [], [], data⟩ .default
      (Stmt.assign kAllowNone (.text (boolText m.allowNone))) rest =
      .ok (Parsed.ofOps [Op.setAllowNone (some m.allowNone)]) := by
    intro rest; simp [parseOne, selectParser_default kAllowNone _ (by decide), evalOptBool_boolText]
  have hS : ∀ rest, parseOne ⟨true, [], [], data⟩ .default
      (Stmt.assign kSpaces (.names (m.spaces.map SpaceD.name))) rest =
      .ok ⟨[], none, some (m.spaces.map SpaceD.name)⟩ := by
    intro rest; simp [parseOne, selectParser_default kSpaces _ (by decide)]
  have hbody : parseStmts' ⟨true, [], [], data⟩ .default
      ([Stmt.importFrom, Stmt.assign kName (.str m.name),
        Stmt.assign kAllowNone (.text (boolText m.allowNone)),
        Stmt.assign kSpaces (.names (m.spaces.map SpaceD.name))] ++ refStmts m.name [] (modelRefs m)) =
      .ok ⟨[Op.setAllowNone (some m.allowNone)] ++ (modelRefs m).map (refOpOf true m.name []),
           some m.name, some (m.spaces.map SpaceD.name)⟩ := by
    simp only [List.cons_append, List.nil_append]
    rw [parseStmts'_cons_ok _ _ _ _ _ (hI _)]
    simp only [nextSec']
    rw [parseStmts'_cons_ok _ _ _ _ _ (hN _)]
    simp only [nextSec']
    rw [parseStmts'_cons_ok _ _ _ _ _ (hA _)]
    simp only [nextSec']
    rw [parseStmts'_cons_ok _ _ _ _ _ (hS _)]
    simp only [nextSec', hR]
    simp [Parsed.ofOps, Parsed.append, Parsed.empty]
  unfold modelStmts modelOpsOf
  cases hd : m.doc with
  | none => simpa [docStmt] using hbody
  | some d =>
    simp only [docStmt, List.cons_append, List.nil_append, List.append_assoc] at hbody ⊢
    have hD : ∀ rest, parseOne ⟨true, [], [], data⟩ .default (Stmt.doc d) rest =
        .ok (Parsed.ofOps [Op.setDoc d]) := by
      intro rest; simp [parseOne, selectParser_doc]
    rw [parseStmts'_cons_ok _ _ _ _ _ (hD _)]
    simp only [nextSec', hbody]
    simp [Parsed.ofOps, Parsed.append]

mutual
theorem depth_writeSpace (model : Name) (parent : Path) : ∀ s : SpaceD, (writeSpace model parent s).depth = s.depth
  | .mk i cs => by
    simp only [writeSpace, Dir.depth, SpaceD.depth, depthL_writeSpaces model (parent ++ [i.name]) cs]
theorem depthL_writeSpaces (model : Name) (parent : Path) :
    ∀ cs : List SpaceD, Dir.depthL (writeSpaces model parent cs) = SpaceD.depthL cs
  | [] => rfl
  | s :: ss => by
    simp only [writeSpaces, Dir.depthL, SpaceD.depthL, depth_writeSpace model parent s,
      depthL_writeSpaces model parent ss]
end

theorem pickleTable_modelData (m : MDesc) : pickleTable (modelData m) = pickleIds m := by
  unfold pickleTable modelData
  have hne : (fDataPickle == fIOSpecs) = false := by decide
  by_cases h1 : (specIds m).isEmpty <;> by_cases h2 : (pickleIds m).isEmpty <;>
    simp [h1, h2, List.lookup_cons, hne] <;> simpa using h2

theorem wellFormed_parts (m : MDesc) (h : WellFormed m) :
    validName m.name = true ∧
    (∀ r ∈ m.refs, validName r.1 = true ∧ refValWF (ctxOf m) (baseDefs m) r.2 = true) ∧
    (m.refs.map (·.1)).Nodup ∧ (m.spaces.map SpaceD.name).Nodup ∧
    spacesWF (ctxOf m) (baseDefs m) m.spaces = true := by
  unfold WellFormed wellFormed at h
  simp only [Bool.and_eq_true, decide_eq_true_eq] at h
  obtain ⟨⟨⟨⟨h1, h2⟩, h3⟩, h4⟩, h5⟩ := h
  have h2' := List.all_eq_true.mp h2
  simp only [Bool.and_eq_true] at h2'
  exact ⟨h1, h2', h3, h4, h5⟩

/-- **parsing the written files gives the instructions of the description** -/
theorem parseModel_write (m : MDesc) (hwf : WellFormed m) (hclean : NoMarkerInText m) :
    parseModel (write m) = .ok ⟨m.name, modelOpsOf m, nodesOf m.name [] m.spaces, pickleIds m⟩ := by
  obtain ⟨hname, hrefs, _, hsn, hspaces⟩ := wellFormed_parts m hwf
  unfold NoMarkerInText noMarkerInText at hclean
  simp only [Bool.and_eq_true] at hclean
  have hparse := parse_modelStmts m (modelData m) (fun r hr => (hrefs r hr).1)
  rw [← parseStmts_clean _ _ hclean.1] at hparse
  have hkids : mapE (parseSpace m.name (write m).depth [] (writeSpaces m.name [] m.spaces))
      (m.spaces.map SpaceD.name) = .ok (m.spaces.map (nodeOf m.name [])) := by
    apply mapE_map_ok
    intro s hs
    apply parseSpace_write m.name hname (ctxOf m) (baseDefs m) _ _ _ _ hs hsn
      (spacesWF_mem _ _ _ hspaces s hs) (spacesClean_mem _ _ _ hclean.2 s hs)
    have := depth_le_depthL s m.spaces hs
    simp only [write, writeWith, Dir.depth, depthL_writeSpaces]
    omega
  simp only [parseModel]
  simp only [write, writeWith, Dir.init, Dir.data, Dir.subs] at hparse hkids ⊢
  simp only [hparse, hkids, nodesOf_eq_map, pickleTable_modelData]

end MxModel.Serial
