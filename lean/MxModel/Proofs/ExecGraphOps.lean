import MxModel.Proofs.ExecEdits
import MxModel.Proofs.ExecCertOps
import MxModel.Proofs.ExecObj
/-!
# The operation languages of C08 and: every operation keeps the graph invariant

Definitions and step lemmas behind `C08.reachable_inv`, `C08.reachable_inv_edits`,
`C08.object_nodes_only_for_uncached` (statements in `Props/C08.lean`): the six-operation value
layer (`Op`, `step`, `run`, `step_inv`) and the nine-operation language with edits of the
definitions (`EOp`, `estep`, `erun`, `StaysRanked`, `estep_inv`, `estep_obj`).
-/
namespace MxModel.C08
open MxModel.Exec

/-- operations of the value layer -/
inductive Op
  | eval (n : Node)
  | set (n : Node) (v : Val)
  | clearAt (n : Node)
  | clear (c : CellId)
  | clearAll (c : CellId)
  | clearObj (c : CellId)

def step (env : Env) (s : St) : Op → St
  | .eval n => (evalTop env n s).2
  | .set n v => if env.cached n.1 then (s.setValue env n v).1 else s   -- uncached: ValueError
  | .clearAt n => s.clearValueAt n true
  | .clear c => s.clearAllValues c false
  | .clearAll c => s.clearAllValues c true
  | .clearObj c => s.clearObj c

def run (env : Env) (s : St) (ops : List Op) : St := ops.foldl (step env) s

/-- idle executor -/
def Idle (s : St) : Prop := s.stack = [] ∧ s.idx = []

theorem step_inv (env : Env) (lt : Node → Node → Prop) (ho : StrictOrder lt) (hr : Ranked env lt)
    (s : St) (op : Op) (g : GI env lt s) (hi : Idle s) :
    GI env lt (step env s op) ∧ Idle (step env s op) := by
  obtain ⟨hst, hidx⟩ := hi
  cases op with
  | eval n =>
    obtain ⟨g', h1, h2, _⟩ := g.topCall ho hr hst hidx n
    exact ⟨g', h1, h2⟩
  | set n v =>
    simp only [step]
    split
    · rename_i hc
      obtain ⟨g', h1⟩ := g.setValue hst n v hc
      refine ⟨g', h1, ?_⟩
      have : ∀ s' : St, (s'.clearValueAt n true).idx = s'.idx := by
        intro s'
        unfold St.clearValueAt
        split
        · split
          · rw [clearWithDescs_eq]; split <;> rfl
          · rfl
        · rfl
      unfold St.setValue
      simp only []
      split
      · exact hidx
      · unfold St.addNode; split <;> (simp only []; rw [this]; exact hidx)
    · exact ⟨g, hst, hidx⟩
  | clearAt n =>
    refine ⟨g.clearValueAt hst n true, by simp only [step]; rw [clearValueAt_stack]; exact hst, ?_⟩
    simp only [step]
    unfold St.clearValueAt
    split
    · split
      · rw [clearWithDescs_eq]; split <;> exact hidx
      · exact hidx
    · exact hidx
  | clear c =>
    obtain ⟨g', h1⟩ := g.clearAllValues hst c false
    refine ⟨g', h1, ?_⟩
    simp only [step]
    exact clearAll_idx s c false hidx
  | clearAll c =>
    obtain ⟨g', h1⟩ := g.clearAllValues hst c true
    refine ⟨g', h1, ?_⟩
    simp only [step]
    exact clearAll_idx s c true hidx
  | clearObj c =>
    exact ⟨g.clearObj hst c, by simp [step, St.clearObj, St.dropValues, St.rgRemoveReferred, St.removeNodes, hst],
      by simp [step, St.clearObj, St.dropValues, St.rgRemoveReferred, St.removeNodes, hidx]⟩
where
  clearAll_idx (s : St) (c : CellId) (ci : Bool) (h : s.idx = []) : (s.clearAllValues c ci).idx = [] := by
    unfold St.clearAllValues
    generalize ((s.data.filter (fun e => e.1.1 == c)).map (·.1)) = keys
    induction keys generalizing s with
    | nil => exact h
    | cons k rest ih =>
      simp only [List.foldl]
      apply ih
      unfold St.clearValueAt
      split
      · split
        · rw [clearWithDescs_eq]; split <;> exact h
        · exact h
      · exact h

theorem empty_GI (env : Env) (lt : Node → Node → Prop) : GI env lt {} := by
  constructor <;> simp

inductive EOp
  | eval (n : Node)
  | set (n : Node) (v : Val)
  | clearAt (n : Node)
  | clear (c : CellId)
  | clearAll (c : CellId)
  | setRef (r : RefId) (v : Val)
  | delRef (r : RefId)
  | setFormula (c : CellId) (f : Key → Prog)
  | setCached (c : CellId) (b : Bool)

def withRef (env : Env) (r : RefId) (x : Option Val) : Env :=
  { env with refs := fun r' => if r' = r then x else env.refs r' }

def withFormula (env : Env) (c : CellId) (f : Key → Prog) : Env :=
  { env with formula := fun n => if n.1 = c then f n.2 else env.formula n }

def withCached (env : Env) (c : CellId) (b : Bool) : Env :=
  { env with cached := fun c' => if c' = c then b else env.cached c' }

/-- one operation on the definitions and the mechanism state, in modelx's order: the clearing
happens while the old definitions are in force, then the definition changes -/
def estep : Env × St → EOp → Env × St
  | (env, s), .eval n => (env, (evalTop env n s).2)
  | (env, s), .set n v => (env, if env.cached n.1 then (s.setValue env n v).1 else s)
  | (env, s), .clearAt n => (env, s.clearValueAt n true)
  | (env, s), .clear c => (env, s.clearAllValues c false)
  | (env, s), .clearAll c => (env, s.clearAllValues c true)
  | (env, s), .setRef r v => (withRef env r (some v), s.setRef env r)
  | (env, s), .delRef r => if (env.refs r).isSome then (withRef env r none, s.delRef env r) else (env, s)
  | (env, s), .setFormula c f => (withFormula env c f, s.setFormula c)
  | (env, s), .setCached c b => if env.cached c = b then (env, s) else (withCached env c b, s.setFormula c)

def erun (st : Env × St) (ops : List EOp) : Env × St := ops.foldl estep st

/-- the definitions stay terminating after every operation (automatic for everything except
formula edits: `ranked_withRef`, `ranked_withCached`) -/
def StaysRanked (lt : Node → Node → Prop) : Env × St → List EOp → Prop
  | _, [] => True
  | st, op :: ops => Ranked (estep st op).1 lt ∧ StaysRanked lt (estep st op) ops

theorem ranked_withRef {env : Env} {lt : Node → Node → Prop} (h : Ranked env lt) (r : RefId)
    (x : Option Val) : Ranked (withRef env r x) lt := h

theorem ranked_withCached {env : Env} {lt : Node → Node → Prop} (h : Ranked env lt) (c : CellId)
    (b : Bool) : Ranked (withCached env c b) lt := h

theorem estep_inv (lt : Node → Node → Prop) (ho : StrictOrder lt) (st : Env × St) (op : EOp)
    (hr : Ranked st.1 lt) (g : GI st.1 lt st.2) (hi : Idle st.2) :
    GI (estep st op).1 lt (estep st op).2 ∧ Idle (estep st op).2 := by
  obtain ⟨env, s⟩ := st
  have clrIdle : ∀ {s' : St} {R : List GNode} {D : RefId × Node → Prop}, Clr s R D s' → Idle s' :=
    fun hc => ⟨hc.stack.trans hi.1, hc.idx.trans hi.2⟩
  cases op with
  | eval n => exact step_inv env lt ho hr s (.eval n) g hi
  | set n v => exact step_inv env lt ho hr s (.set n v) g hi
  | clearAt n => exact step_inv env lt ho hr s (.clearAt n) g hi
  | clear c => exact step_inv env lt ho hr s (.clear c) g hi
  | clearAll c => exact step_inv env lt ho hr s (.clearAll c) g hi
  | setRef r v =>
    obtain ⟨R, D, hc, _, _⟩ := clr_setRef env s g.edgeOK r
    have hed : RefEdit env (withRef env r (some v)) r := ⟨rfl, rfl, rfl, fun r' h => by simp [withRef, h], rfl⟩
    exact ⟨refEdit_gi g hi.1 hed hc, clrIdle hc⟩
  | delRef r =>
    simp only [estep]
    split
    · obtain ⟨R, hc, _⟩ := clr_delRef env s g.edgeOK r
      have hed : RefEdit env (withRef env r none) r := ⟨rfl, rfl, rfl, fun r' h => by simp [withRef, h], rfl⟩
      exact ⟨refEdit_gi g hi.1 hed hc, clrIdle hc⟩
    · exact ⟨g, hi⟩
  | setFormula c f =>
    simp only [estep, St.setFormula]
    obtain ⟨R, hc, hel, _⟩ := clr_clearObj s (fun _ => False) g.edgeOK c
    refine ⟨g.of_clr hi.1 hc ?_, clrIdle hc⟩
    intro m _; rfl
  | setCached c b =>
    simp only [estep]
    split
    · exact ⟨g, hi⟩
    · simp only [St.setFormula]
      obtain ⟨R, hc, hel, _⟩ := clr_clearObj s (fun _ => False) g.edgeOK c
      refine ⟨g.of_clr hi.1 hc ?_, clrIdle hc⟩
      intro m hm
      obtain ⟨h1, h2⟩ := (hc.mem_gn _).mp hm
      have : m.1 ≠ c := fun h => h2 (hel m h h1)
      simp [withCached, this]

theorem estep_obj (lt : Node → Node → Prop) (st : Env × St) (op : EOp)
    (g : GI st.1 lt st.2) (hi : Idle st.2) (hobj : ObjOK st.1 st.2) :
    ObjOK (estep st op).1 (estep st op).2 := by
  obtain ⟨env, s⟩ := st
  have clrSub : ∀ {s' : St} {R : List GNode} {D : RefId × Node → Prop}, Clr s R D s' → ObjGrow env s s' :=
    fun hc => ObjGrow.of_sub (fun x hx => ((hc.mem_gn x).mp hx).1)
  cases op with
  | eval n => exact hobj.grow (evalTop_obj n s)
  | set n v =>
    simp only [estep]
    split
    · obtain ⟨R, hc, _⟩ := clr_clearValueAt s (fun _ => False) g.edgeOK n true
      refine hobj.grow ?_
      unfold St.setValue
      split
      · exact ObjGrow.refl s
      · simp only []
        refine (clrSub hc).trans ?_
        have h1 : ObjGrow env (s.clearValueAt n true)
            { s.clearValueAt n true with data := insert (s.clearValueAt n true).data n v } := ObjGrow.of_gn rfl
        refine h1.trans ((objGrow_addNode_elem _ n).trans (ObjGrow.of_gn rfl))
    · exact hobj
  | clearAt n =>
    obtain ⟨R, hc, _⟩ := clr_clearValueAt s (fun _ => False) g.edgeOK n true
    exact hobj.grow (clrSub hc)
  | clear c =>
    obtain ⟨R, hc, _⟩ := clr_clearAllValues s (fun _ => False) g.edgeOK c false
    exact hobj.grow (clrSub hc)
  | clearAll c =>
    obtain ⟨R, hc, _⟩ := clr_clearAllValues s (fun _ => False) g.edgeOK c true
    exact hobj.grow (clrSub hc)
  | setRef r v =>
    obtain ⟨R, D, hc, _, _⟩ := clr_setRef env s g.edgeOK r
    exact hobj.grow (clrSub hc)
  | delRef r =>
    simp only [estep]
    split
    · obtain ⟨R, hc, _⟩ := clr_delRef env s g.edgeOK r
      exact hobj.grow (clrSub hc)
    · exact hobj
  | setFormula c f =>
    simp only [estep, St.setFormula]
    obtain ⟨R, hc, _, _⟩ := clr_clearObj s (fun _ => False) g.edgeOK c
    exact hobj.grow (clrSub hc)
  | setCached c b =>
    simp only [estep]
    split
    · exact hobj
    · simp only [St.setFormula]
      obtain ⟨R, hc, _, hgone⟩ := clr_clearObj s (fun _ => False) g.edgeOK c
      intro c' hc'
      obtain ⟨h1, h2⟩ := (hc.mem_gn _).mp hc'
      have hne : c' ≠ c := fun h => h2 (h ▸ hgone (h ▸ h1))
      simp only [withCached, hne, if_false]
      exact hobj c' h1

end MxModel.C08
