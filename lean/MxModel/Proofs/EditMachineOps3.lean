import MxModel.Proofs.EditMachineOps2
import MxModel.Proofs.StructMechRename
/-!
# Coverage for `del space`

The deleted spaces (`p` and everything below it) lose all their members: their cells are cleared by
`BaseSpaceImpl.on_delete` (`Clear.del`), their references by `clear_attr_referrers`; the namespace of
the parent of `p` loses a child name and notifies; the sub spaces of the deleted spaces that stay
are re-derived (`updateClears`); every other space keeps its linearisation (no deleted space is on
it) and its members.
-/
namespace MxModel.Edit
open MxModel.Exec MxModel.C02 MxModel.SM

variable (kw : List String) (t : Tabs)

/-- the namespace of `q` only looks at which names `q` has and which child names it has -/
theorem nsAt_congr' (t : Tabs) {st st' : SM.St} (q : Path)
    (hm : ∀ a x, (st'.mem a q x).isSome = (st.mem a q x).isSome)
    (hch : ∀ x, x ∈ st'.childNames q ↔ x ∈ st.childNames q) (hg : st'.globals = st.globals) :
    nsAt t st' q = nsAt t st q := by
  funext x
  unfold nsAt nsPlain
  have : (st'.childNames q).contains x = (st.childNames q).contains x := by
    rw [Bool.eq_iff_iff]
    simp only [List.contains_eq_mem, decide_eq_true_eq]
    exact hch x
  rw [hm .cells x, hm .refs x, this, hg]

theorem nsAt_changed' (t : Tabs) {st st' : SM.St} (q : Path)
    (hch : ∀ x, x ∈ st'.childNames q ↔ x ∈ st.childNames q) (hg : st'.globals = st.globals)
    (hne : nsAt t st' q ≠ nsAt t st q) : ∃ a x, (st'.mem a q x).isSome ≠ (st.mem a q x).isSome := by
  apply Classical.byContradiction
  intro hc
  apply hne
  apply nsAt_congr' t q _ hch hg
  intro a x
  apply Classical.byContradiction
  intro h
  exact hc ⟨a, x, h⟩

theorem mem_cellsOf_iff {st : SM.St} {q : Path} {c : CellId} :
    c ∈ cellsOf t st q ↔ ∃ x, (st.mem .cells q x).isSome = true ∧ c = t.cid q x := by
  simp only [cellsOf, List.mem_map]
  constructor
  · rintro ⟨e, he, rfl⟩
    exact ⟨e.1, isSome_of_mem_keys st .cells q e.1 (List.mem_map_of_mem he), rfl⟩
  · rintro ⟨x, hx, rfl⟩
    have := mem_keys_of_isSome st .cells q x hx
    simp only [List.mem_map] at this
    obtain ⟨e, he, hex⟩ := this
    exact ⟨e, he, by rw [hex]⟩

theorem mem_refsOf {st : SM.St} {q : Path} {x : String} (h : (st.mem .refs q x).isSome = true) :
    t.rid q x ∈ refsOf t st q := by
  have := mem_keys_of_isSome st .refs q x h
  simp only [List.mem_map] at this
  obtain ⟨e, he, hex⟩ := this
  simp only [refsOf, List.mem_map]
  exact ⟨e, he, by rw [hex]⟩

/-- `covers_update` with a set `X` of spaces all of whose members are cleared by other means -/
theorem covers_update' {st st' : SM.St} (hi : Inv st) (hi' : Inv st') (ds : List Path) (cl : List Clear)
    (X : Path → Prop)
    (hsub : ∀ k ∈ updateClears t st st' ds, k ∈ cl)
    (hX : ∀ q, X q → (∀ x, (st.mem .cells q x).isSome = true → clearedBy cl (t.cid q x) = true) ∧
      (∀ x, (st.mem .refs q x).isSome = true → Clear.attr (t.rid q x) ∈ cl))
    (hF : ∀ q, q ∈ st.ids → q ∉ ds → ¬ X q → ∀ a n, st'.mem a q n = st.mem a q n)
    (hD : ∀ a q n, q ∈ ds → st'.defd a q n = st.defd a q n)
    (hC : ∀ q, ¬ X q → (¬ ∀ x, x ∈ st'.childNames q ↔ x ∈ st.childNames q) →
      Clear.ns (cellsOf t st q) ∈ cl)
    (hG : st'.globals = st.globals) :
    Covers t st st' cl := by
  have walked : ∀ a q n, q ∈ st.ids → ¬ X q → st'.mem a q n ≠ st.mem a q n → q ∈ ds := by
    intro a q n hq hx hne
    apply Classical.byContradiction
    intro hqd
    exact hne (hF q hq hqd hx a n)
  have derived : ∀ a q n m, q ∈ ds → st.mem a q n = some m → st'.mem a q n ≠ some m → m.derived = true := by
    intro a q n m hq hm hne
    cases hd : m.derived with
    | true => rfl
    | false => exact absurd (own_same hi' hm hd (hD a q n hq)) hne
  refine ⟨?_, ?_, ?_, ?_⟩
  · intro q x hm hne
    have hq : q ∈ st.ids := mem_ids_of_isSome st .cells q x hm
    by_cases hx : X q
    · exact touchedBy_of_cleared ((hX q hx).1 x hm)
    by_cases hch : ∀ y, y ∈ st'.childNames q ↔ y ∈ st.childNames q
    · obtain ⟨a', y, hdiff⟩ := nsAt_changed' t q hch hG hne
      have hqd : q ∈ ds := walked a' q y hq hx (fun h => hdiff (by rw [h]))
      refine touchedBy_of_ns (L := cellsOf t st q) (hsub _ ?_) (mem_cellsOf t st q x hm)
      cases a' with
      | cells => exact mem_updateClears_ns_cells t hqd hdiff
      | refs => exact mem_updateClears_ns_refs t hqd (Or.inr hdiff)
    · exact touchedBy_of_ns (hC q hx hch) (mem_cellsOf t st q x hm)
  · intro q x hm hne
    have hq : q ∈ st.ids := mem_ids_of_isSome st .cells q x hm
    by_cases hx : X q
    · exact (hX q hx).1 x hm
    have hqd := walked .cells q x hq hx hne
    cases hmm : st.mem .cells q x with
    | none => rw [hmm] at hm; cases hm
    | some m =>
      have hder := derived .cells q x m hqd hmm (by rw [← hmm]; exact hne)
      exact clearedBy_of_obj (hsub _ (mem_updateClears_obj t hqd hmm hder))
  · intro q x hne c hc
    have hq : q ∈ st.ids := mem_ids_of_mem_cellsOf t hc
    by_cases hx : X q
    · obtain ⟨y, hy, rfl⟩ := (mem_cellsOf_iff t).mp hc
      exact touchedBy_of_cleared ((hX q hx).1 y hy)
    have hqd := walked .refs q x hq hx hne
    refine touchedBy_of_ns (L := cellsOf t st q) (hsub _ ?_) hc
    cases hmm : st.mem .refs q x with
    | none =>
      refine mem_updateClears_ns_refs t (n := x) hqd (Or.inr ?_)
      rw [hmm]
      cases hm' : st'.mem .refs q x with
      | none => rw [hmm, hm'] at hne; exact absurd rfl hne
      | some m' => simp
    | some m =>
      have hder := derived .refs q x m hqd hmm (by rw [← hmm]; exact hne)
      exact mem_updateClears_ns_refs t hqd (Or.inl ⟨m, hmm, hder⟩)
  · intro q x hne hs
    have hq : q ∈ st.ids := mem_ids_of_isSome st .refs q x hs
    by_cases hx : X q
    · exact (hX q hx).2 x hs
    have hqd := walked .refs q x hq hx hne
    cases hmm : st.mem .refs q x with
    | none => rw [hmm] at hs; cases hs
    | some m =>
      have hder := derived .refs q x m hqd hmm (by rw [← hmm]; exact hne)
      exact hsub _ (mem_updateClears_attr t hqd hmm hder)

/-- a path that has `p` as a prefix although its parent has not is `p` itself -/
theorem eq_of_isPrefix_snoc (p q : Path) (x : String) (h1 : isPrefix p (q ++ [x]) = true)
    (h2 : isPrefix p q = false) : p = q ++ [x] := by
  unfold isPrefix at h1 h2
  simp only [beq_iff_eq] at h1
  have h2' : q.take p.length ≠ p := by simpa using h2
  have hlen : p.length ≤ (q ++ [x]).length := by
    have := congrArg List.length h1
    simp only [List.length_take] at this
    omega
  by_cases hle : p.length ≤ q.length
  · exfalso
    apply h2'
    rw [List.take_append_of_le_length hle] at h1
    exact h1
  · have : p.length = (q ++ [x]).length := by
      simp only [List.length_append, List.length_singleton] at hlen ⊢
      omega
    rw [this, List.take_length] at h1
    exact h1.symm

/-- **`del space`** -/
theorem covers_delSpace {st st' : SM.St} (hi : Inv st) (hi' : Inv st') (p : Path)
    (hop : st.delSpaceOp p = some st') :
    Covers t st st' (clearing kw t st st' (.delSpace p)) := by
  have D := delSpaceOp_spec st st' (keysOK_of_inv hi) p hop
  have hacc : st.acceptsDelSpace p = true := by rw [← delSpaceOp_isSome, hop]; rfl
  have hp : p ∈ st.ids := by
    unfold St.acceptsDelSpace at hacc
    simp only [Bool.and_eq_true] at hacc
    exact (has_iff_mem_ids st p).mp hacc.1
  have hpp : isPrefix p p = true := by simp [isPrefix]
  have hremoved : ∀ q, q ∈ st.ids.filter (isPrefix p) ↔ q ∈ st.ids ∧ isPrefix p q = true := by
    intro q; simp
  have hupd : ∀ q, q ∈ delSpaceUpdated st p → q ∈ st.ids ∧ isPrefix p q = false := by
    intro q hq
    simp only [delSpaceUpdated, List.mem_filter, List.mem_eraseDups, List.mem_flatMap, Bool.not_eq_true',
      List.contains_eq_mem, decide_eq_false_iff_not] at hq
    obtain ⟨⟨r, _, hqr⟩, hnr⟩ := hq
    have hqi := ((mem_subs r q).mp hqr).1
    refine ⟨hqi, ?_⟩
    cases hx : isPrefix p q with
    | false => rfl
    | true => exact absurd ⟨hqi, hx⟩ hnr
  refine covers_update' t hi hi' (delSpaceUpdated st p) _ (fun q => q ∈ st.ids ∧ isPrefix p q = true) ?_ ?_ ?_ ?_ ?_ D.globals
  · intro k hk
    simp only [clearing, List.mem_append]
    exact Or.inr hk
  · -- the members of the deleted spaces
    intro q hq
    have hqr := (hremoved q).mpr hq
    refine ⟨?_, ?_⟩
    · intro x hx
      apply clearedBy_of_del
      simp only [clearing, List.mem_append, List.mem_flatMap]
      left
      refine ⟨q, hqr, ?_⟩
      simp only [List.mem_cons, List.mem_append, List.mem_map]
      right; left
      exact ⟨_, mem_cellsOf t st q x hx, rfl⟩
    · intro x hx
      simp only [clearing, List.mem_append, List.mem_flatMap]
      left
      refine ⟨q, hqr, ?_⟩
      simp only [List.mem_cons, List.mem_append, List.mem_map]
      right; right
      exact ⟨_, mem_refsOf t hx, rfl⟩
  · -- a space that stays and is not re-derived keeps its members
    intro q hq hqd hx a n
    have hqp : isPrefix p q = false := by
      cases h : isPrefix p q with
      | false => rfl
      | true => exact absurd ⟨hq, h⟩ hx
    -- no deleted space on its linearisation
    have hcl : ∀ x ∈ q :: st.tail q, x ∈ st.ids ∧ isPrefix p x = false := by
      intro x hxm
      simp only [List.mem_cons] at hxm
      rcases hxm with rfl | hxm
      · exact ⟨hq, hqp⟩
      · have hxi := hi.wf.tail_mem_ids q x hxm
        refine ⟨hxi, ?_⟩
        cases h : isPrefix p x with
        | false => rfl
        | true =>
          exfalso
          apply hqd
          simp only [delSpaceUpdated, List.mem_filter, List.mem_eraseDups, List.mem_flatMap, Bool.not_eq_true',
            List.contains_eq_mem, decide_eq_false_iff_not]
          refine ⟨⟨x, ⟨hxi, h⟩, (mem_subs x q).mpr ⟨hq, ?_, hxm⟩⟩, fun hh => ?_⟩
          · intro e; rw [e, h] at hqp; cases hqp
          · rw [hh.2] at hqp; cases hqp
    have hmro : st'.mro q = some (q :: st.tail q) := by
      apply mro_transfer_st st st' q _ (hi.wf.mro_all q)
      · intro x hxm
        rw [D.basesOf x, (hcl x hxm).2]
        simp only [Bool.false_eq_true, if_false]
        rw [List.filter_eq_self]
        intro b hb
        have hbl : b ∈ q :: st.tail q := C3.mro_bases_subset _ _ q _ (hi.wf.mro_all q) x hxm b hb
        have := hcl b hbl
        simp only [St.removedBy, List.contains_eq_mem, List.mem_filter, Bool.not_eq_true', decide_eq_false_iff_not]
        intro hh
        rw [this.2] at hh; cases hh.2
      · have hnd := hi.wf.tail_nodup q
        have hsubl : (q :: st.tail q) ⊆ st'.ids := by
          intro x hxm
          exact (D.ids x).mpr (hcl x hxm)
        have := List.Nodup.length_le_of_subset hnd hsubl
        simp only [St.ids, List.length_map] at this
        omega
    have htail : st'.tail q = st.tail q := by
      unfold St.tail
      rw [hmro, hi.wf.mro_all q]
    refine mem_eq_of_tail hi hi' q htail ?_ a n
    intro a b n hb
    rw [D.defs a b n, (hcl b hb).2]
    simp
  · intro a q n hq
    rw [D.defs a q n, (hupd q hq).2]
    simp
  · -- the child names of a space that stays change only for the parent of `p`
    intro q hx hch
    have hqp : q ∈ st.ids → isPrefix p q = false := by
      intro hq
      cases h : isPrefix p q with
      | false => rfl
      | true => exact absurd ⟨hq, h⟩ hx
    have : ∃ x, ¬ (x ∈ st'.childNames q ↔ x ∈ st.childNames q) := by
      apply Classical.byContradiction
      intro hc
      apply hch
      intro x
      apply Classical.byContradiction
      intro h
      exact hc ⟨x, h⟩
    obtain ⟨x, hxx⟩ := this
    rw [mem_childNames, mem_childNames, D.ids] at hxx
    have hrem : (q ++ [x]) ∈ st.ids ∧ isPrefix p (q ++ [x]) = true := by
      apply Classical.byContradiction
      intro hc
      apply hxx
      constructor
      · exact fun h => h.1
      · intro h
        refine ⟨h, ?_⟩
        cases hh : isPrefix p (q ++ [x]) with
        | false => rfl
        | true => exact absurd ⟨h, hh⟩ hc
    -- `q` is the parent of `p`
    have hqpre : isPrefix p q = false := by
      cases h : isPrefix p q with
      | false => rfl
      | true =>
        exfalso
        have hq : q ∈ st.ids := by
          rcases (hi.wf.tree _ hrem.1).2 with h0 | h0
          · exfalso
            simp only [List.dropLast_concat] at h0
            subst h0
            have : p = [] := by
              unfold isPrefix at h
              simpa using h.symm
            exact (hi.wf.tree p hp).1 this
          · simpa using h0
        rw [hqp hq] at h; cases h
    have hpe : p = q ++ [x] := eq_of_isPrefix_snoc p q x hrem.2 hqpre
    simp only [clearing, List.mem_append, List.mem_flatMap]
    left
    refine ⟨p, (hremoved p).mpr ⟨hp, hpp⟩, ?_⟩
    simp only [List.mem_cons]
    left
    rw [hpe]
    simp


/-! ## `rename_cells`

In every target (the space of the cells, and the sub spaces whose `old` is their own or derived from
it) the cells `old` is cleared as an object and the container notifies (`on_rename` / `on_del_cells`);
then the sub spaces are re-derived.  From `renameCells_full`: only entries named `old` or `new`, in the
space or its sub spaces, can differ. -/

theorem mem_eq_of_defs {st st' : SM.St} (hi : Inv st) (hi' : Inv st') (hs : Shape st st') (a : Attr) (q : Path)
    (n : String) (hdef : ∀ b, b ∈ q :: st.tail q → st'.defd a b n = st.defd a b n) :
    st'.mem a q n = st.mem a q n := by
  rw [hi'.mem_eq_derivation, hi.mem_eq_derivation, hs.tail q, hdef q (by simp),
    firstDef_congr st st' a _ n (fun b hb => hdef b (List.mem_cons_of_mem _ hb))]

/-- **`rename_cells`** -/
theorem covers_renameCells {st st' : SM.St} (hi : Inv st) (hi' : Inv st') (p : Path) (old new : String)
    (hop : st.renameCells kw p old new = some st') :
    Covers t st st' (clearing kw t st st' (.renameCells p old new)) := by
  obtain ⟨hs, hdef⟩ := renameCells_full kw st st' hi p old new hop
  -- the targets, as the clearing lists them
  have hT : ∀ q, q ∈ st.renameTargets p old ↔ q ∈ (p :: st.subs p).filter (fun q =>
      match st.mem .cells q old with
      | none => false
      | some m => q == p || !m.derived || firstIs st .cells q old p) := by
    intro q
    unfold St.renameTargets firstIs
    rfl
  have hTsub : ∀ q, q ∈ st.renameTargets p old → q ∈ p :: st.subs p := fun q hq => (List.mem_filter.mp hq).1
  have hpnew : st.mem .cells p new = none := by
    have hacc : (st.renameCells kw p old new).isSome = true := by rw [hop]; rfl
    rw [renameCells_isSome] at hacc
    unfold St.acceptsRename at hacc
    simp only [Bool.and_eq_true] at hacc
    have hp : p ∈ st.ids := mem_ids_of_isSome st .cells p old hacc.1.1.1
    have hpne : p ≠ [] := (hi.wf.tree p hp).1
    have hcan := hacc.1.2
    unfold St.canAdd at hcan
    have : (p == []) = false := by simpa using hpne
    simp only [this, Bool.false_eq_true, if_false] at hcan
    cases hk : st.kindOf p new with
    | some k => simp [hk] at hcan
    | none => exact (kindOf_none st p _ hk).1
  have hpold : (st.mem .cells p old).isSome = true := by
    have hacc : (st.renameCells kw p old new).isSome = true := by rw [hop]; rfl
    rw [renameCells_isSome] at hacc
    unfold St.acceptsRename at hacc
    simp only [Bool.and_eq_true] at hacc
    exact hacc.1.1.1
  have hrefs : ∀ q n, st'.mem .refs q n = st.mem .refs q n := by
    intro q n
    refine mem_eq_of_defs hi hi' hs .refs q n (fun b _ => ?_)
    rw [hdef .refs b n, if_neg (fun h => nomatch h.1)]
  have hother : ∀ q n, n ≠ old → n ≠ new → st'.mem .cells q n = st.mem .cells q n := by
    intro q n h1 h2
    refine mem_eq_of_defs hi hi' hs .cells q n (fun b _ => ?_)
    rw [hdef .cells b n]
    split
    · simp [renamedDef, h1, h2]
    · rfl
  have houtside : ∀ q n, q ∉ p :: st.subs p → st'.mem .cells q n = st.mem .cells q n := by
    intro q n hq
    refine mem_eq_of_defs hi hi' hs .cells q n (fun b hb => ?_)
    have hbT : b ∉ st.renameTargets p old := by
      intro hbT
      have := hTsub b hbT
      simp only [List.mem_cons] at hb
      rcases hb with rfl | hb
      · exact hq this
      · exact hi.wf.tail_avoids p q b hq hb this
    rw [hdef .cells b n, if_neg (fun h => hbT h.2)]
  -- membership of the clears of a target / of a re-derived sub space
  have hcl_target : ∀ q, q ∈ st.renameTargets p old →
      Clear.obj (t.cid q old) ∈ clearing kw t st st' (.renameCells p old new) ∧
      Clear.ns (cellsOf t st q) ∈ clearing kw t st st' (.renameCells p old new) := by
    intro q hq
    have hq' := (hT q).mp hq
    simp only [clearing, List.mem_append, List.mem_flatMap]
    exact ⟨Or.inl ⟨q, hq', by simp⟩, Or.inl ⟨q, hq', by simp⟩⟩
  have hcl_sub : ∀ k, k ∈ updateClears t st st' (st.subs p) → k ∈ clearing kw t st st' (.renameCells p old new) := by
    intro k hk
    simp only [clearing, List.mem_append]
    exact Or.inr hk
  -- a changed cells entry is in the space or a sub space, and named `old` or `new`
  have hwhere : ∀ q n, st'.mem .cells q n ≠ st.mem .cells q n → q ∈ p :: st.subs p ∧ (n = old ∨ n = new) := by
    intro q n hne
    refine ⟨?_, ?_⟩
    · apply Classical.byContradiction
      intro hq
      exact hne (houtside q n hq)
    · apply Classical.byContradiction
      intro hn
      simp only [not_or] at hn
      exact hne (hother q n hn.1 hn.2)
  refine ⟨?_, ?_, fun q x hne => absurd (hrefs q x) hne, fun q x hne => absurd (hrefs q x) hne⟩
  · intro q x hm hne
    obtain ⟨a', y, hdiff⟩ := nsAt_changed t q (hs.childNames q) hs.globals hne
    have hne' : st'.mem a' q y ≠ st.mem a' q y := fun h => hdiff (by rw [h])
    cases a' with
    | refs => exact absurd (hrefs q y) hne'
    | cells =>
      obtain ⟨hq, _⟩ := hwhere q y hne'
      by_cases hqT : q ∈ st.renameTargets p old
      · exact touchedBy_of_ns (hcl_target q hqT).2 (mem_cellsOf t st q x hm)
      · have hqs : q ∈ st.subs p := by
          simp only [List.mem_cons] at hq
          rcases hq with rfl | hq
          · exfalso
            apply hqT
            rw [hT]
            refine List.mem_filter.mpr ⟨by simp, ?_⟩
            cases hmm : st.mem .cells q old with
            | none => rw [hmm] at hpold; cases hpold
            | some m => simp
          · exact hq
        exact touchedBy_of_ns (hcl_sub _ (mem_updateClears_ns_cells t hqs hdiff)) (mem_cellsOf t st q x hm)
  · intro q x hm hne
    obtain ⟨hq, hx⟩ := hwhere q x hne
    by_cases hqT : q ∈ st.renameTargets p old
    · rcases hx with rfl | rfl
      · exact clearedBy_of_obj (hcl_target q hqT).1
      · -- the cells `new` of a target: `p` has none; a sub space's own one stays, a derived one is re-derived
        have hqp : q ≠ p := by
          intro e
          rw [e, hpnew] at hm; cases hm
        have hqs : q ∈ st.subs p := by
          have := hTsub q hqT
          simp only [List.mem_cons] at this
          exact this.resolve_left hqp
        cases hmm : st.mem .cells q x with
        | none => rw [hmm] at hm; cases hm
        | some m =>
          cases hd : m.derived with
          | true => exact clearedBy_of_obj (hcl_sub _ (mem_updateClears_obj t hqs hmm hd))
          | false =>
            exfalso
            apply hne
            rw [hmm]
            refine own_same hi' hmm hd ?_
            rw [hdef .cells q x, if_pos ⟨rfl, hqT⟩]
            unfold renamedDef
            by_cases hxo : x = old
            · -- `old = new`: the entry named `old` is the target's own and is renamed to itself
              subst hxo
              exfalso
              rw [hpnew] at hpold; cases hpold
            · rw [if_neg hxo, if_pos rfl, if_pos hm]
    · have hqs : q ∈ st.subs p := by
        simp only [List.mem_cons] at hq
        rcases hq with rfl | hq
        · exfalso
          apply hqT
          rw [hT]
          refine List.mem_filter.mpr ⟨by simp, ?_⟩
          cases hmm : st.mem .cells q old with
          | none => rw [hmm] at hpold; cases hpold
          | some m => simp
        · exact hq
      cases hmm : st.mem .cells q x with
      | none => rw [hmm] at hm; cases hm
      | some m =>
        cases hd : m.derived with
        | true => exact clearedBy_of_obj (hcl_sub _ (mem_updateClears_obj t hqs hmm hd))
        | false =>
          exfalso
          apply hne
          rw [hmm]
          refine own_same hi' hmm hd ?_
          rw [hdef .cells q x, if_neg (fun h => hqT h.2)]

end MxModel.Edit
