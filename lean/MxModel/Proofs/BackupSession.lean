import MxModel.Kernels.Backup
import MxModel.Proofs.Registry
/-! Helper lemmas for the session part of C14: what a failing `read_model` leaves in the
registry. -/
namespace MxModel.Backup
open MxModel.Registry MxModel.Names

/-! ### nothing is added by renames -/

theorem ids_moveKey_rev (ms : List (String × Model)) (old new : String) (i : Nat) :
    i ∈ ids (moveKey ms old new) → i ∈ ids ms := by
  unfold moveKey
  cases hl : lookupName ms old with
  | none => exact id
  | some m =>
    simp only [ids, List.map_append, List.mem_append, List.mem_map]
    rintro (⟨e, he, rfl⟩ | ⟨e, he, rfl⟩)
    · exact ⟨e, (mem_eraseName.mp he).1, rfl⟩
    · simp only [List.mem_singleton] at he
      subst he
      exact ⟨(old, m), lookupName_some hl, rfl⟩

theorem renamePlain_ids_rev (r : Reg) (old new : String) (i : Nat) :
    i ∈ ids (renamePlain r old new).1.models → i ∈ ids r.models := by
  unfold renamePlain
  split
  · exact id
  · split
    · exact id
    · exact ids_moveKey_rev _ _ _ _

theorem freeName_ids_rev (r : Reg) (name : String) (i : Nat) :
    i ∈ ids (freeName r name).models → i ∈ ids r.models := by
  unfold freeName
  split
  · unfold renameSamename
    exact renamePlain_ids_rev _ _ _ _
  · exact id

theorem rename_ids_rev (kw : List String) (r : Reg) (i : Nat) (new : String) (ro : Bool)
    (j : Nat) : j ∈ ids (Registry.rename kw r i new ro).1.models → j ∈ ids r.models := by
  unfold Registry.rename
  split
  · exact id
  · simp only []
    have h1 : j ∈ ids (if ro = true then freeName r new else r).models → j ∈ ids r.models := by
      split
      · exact freeName_ids_rev _ _ _
      · exact id
    split
    · exact id
    · split
      · exact h1
      · exact fun h => h1 (renamePlain_ids_rev _ _ _ _ h)

/-- the registry right after `mx.new_model()` in `parse_dir` -/
def afterNew (r : Reg) : Reg :=
  ⟨r.models ++ [((autoName r).2, { id := r.nextId, name := (autoName r).2 })],
    (autoName r).1.modelnamer, r.backupnamer, some r.nextId, r.nextId + 1⟩

theorem newModel_none_eq (kw : List String) (r : Reg) :
    newModel kw r none = (afterNew r, .ok r.nextId) := rfl

theorem lt_of_mem_ids {r : Reg} (h : RegInv r) {j : Nat} (hj : j ∈ ids r.models) :
    j < r.nextId := by
  simp only [ids, List.mem_map] at hj
  obtain ⟨e, he, rfl⟩ := hj
  exact h.idsLt e he

theorem afterNew_inv (kw : List String) {r : Reg} (h : RegInv r) : RegInv (afterNew r) := by
  have := newModel_inv kw h none
  rw [newModel_none_eq] at this
  exact this

theorem mem_ids_afterNew (r : Reg) (j : Nat) :
    j ∈ ids (afterNew r).models ↔ (j ∈ ids r.models ∨ j = r.nextId) := by
  simp [afterNew, ids]

/-- a failing load registers nothing and drops nothing -/
theorem loadReg_failed_ids (kw : List String) (r : Reg) (h : RegInv r) (name : String)
    (f : LoadFail) (hf : f ≠ .nowhere) (j : Nat) :
    j ∈ ids (loadReg kw r name f).models ↔ j ∈ ids r.models := by
  have hnewInv := afterNew_inv kw h
  cases f with
  | nowhere => exact absurd rfl hf
  | beforeNew => exact Iff.rfl
  | rootSource =>
    simp only [loadReg, newModel_none_eq]
    rw [close_ids hnewInv, mem_ids_afterNew]
    constructor
    · rintro ⟨hj | hj, hne⟩
      · exact hj
      · exact absurd hj hne
    · intro hj; exact ⟨Or.inl hj, by have := lt_of_mem_ids h hj; omega⟩
  | afterRename =>
    simp only [loadReg, readModel, newModel_none_eq]
    have h2 := rename_inv kw hnewInv r.nextId name true
    have hfw := rename_ids kw hnewInv r.nextId name true j
    have hbw := rename_ids_rev kw (afterNew r) r.nextId name true j
    generalize Registry.rename kw (afterNew r) r.nextId name true = q at h2 hfw hbw
    obtain ⟨r2, res2⟩ := q
    have hcl : j ∈ ids (close r2 r.nextId).1.models ↔ j ∈ ids r.models := by
      rw [close_ids h2]
      constructor
      · rintro ⟨hj, hne⟩
        rcases (mem_ids_afterNew r j).mp (hbw hj) with h' | h'
        · exact h'
        · exact absurd h' hne
      · intro hj
        exact ⟨hfw ((mem_ids_afterNew r j).mpr (Or.inl hj)), by have := lt_of_mem_ids h hj; omega⟩
    cases res2 with
    | error e => exact hcl
    | ok u => simpa using hcl

/-! ### with no model of that name registered, a failing load leaves the registry as it was -/

theorem eraseName_append_single_self (ms : List (String × Model)) (k : String) (m : Model)
    (hk : k ∉ mkeys ms) : eraseName (ms ++ [(k, m)]) k = ms := by
  unfold eraseName
  rw [List.filter_append]
  have h1 : ms.filter (fun e => e.1 != k) = ms := by
    rw [List.filter_eq_self]
    intro e he
    have : e.1 ≠ k := fun hc => hk (by simp only [mkeys, List.mem_map]; exact ⟨e, he, hc⟩)
    simpa using this
  rw [h1]
  simp

theorem lookupName_append_single (ms : List (String × Model)) (k : String) (m : Model)
    (hk : k ∉ mkeys ms) : lookupName (ms ++ [(k, m)]) k = some m := by
  induction ms with
  | nil => simp [lookupName]
  | cons e rest ih =>
    obtain ⟨k', m'⟩ := e
    simp only [mkeys, List.map_cons, List.mem_cons, not_or] at hk
    simp only [List.cons_append, lookupName]
    rw [if_neg (fun hc => hk.1 hc.symm)]
    exact ih (by simpa [mkeys] using hk.2)

theorem lookupId_append_single (ms : List (String × Model)) (k : String) (m : Model)
    (hid : m.id ∉ ids ms) : lookupId (ms ++ [(k, m)]) m.id = some m := by
  induction ms with
  | nil => simp [lookupId]
  | cons e rest ih =>
    obtain ⟨k', m'⟩ := e
    simp only [ids, List.map_cons, List.mem_cons, not_or] at hid
    simp only [List.cons_append, lookupId]
    rw [if_neg (fun hc => hid.1 hc.symm)]
    exact ih (by simpa [ids] using hid.2)

theorem auto_fresh (r : Reg) : (autoName r).2 ∉ mkeys r.models := by
  have := autoName_fresh r
  simpa [keys_eq, autoName] using this

theorem nextId_fresh {r : Reg} (h : RegInv r) : r.nextId ∉ ids r.models := fun hc => by
  have := lt_of_mem_ids h hc; omega

theorem lookupId_afterNew {r : Reg} (h : RegInv r) :
    lookupId (afterNew r).models r.nextId = some { id := r.nextId, name := (autoName r).2 } :=
  lookupId_append_single r.models (autoName r).2 { id := r.nextId, name := (autoName r).2 }
    (nextId_fresh h)

theorem close_models {r : Reg} {i : Nat} {m : Model} (hl : lookupId r.models i = some m) :
    (close r i).1.models = eraseName r.models m.name := by
  simp only [close, hl]

theorem close_afterNew_models {r : Reg} (h : RegInv r) :
    (close (afterNew r) r.nextId).1.models = r.models := by
  rw [close_models (lookupId_afterNew h)]
  exact eraseName_append_single_self r.models _ _ (auto_fresh r)

theorem freeName_afterNew (r : Reg) (name : String) (hname : name ∉ keys r)
    (hna : name ≠ (autoName r).2) : freeName (afterNew r) name = afterNew r := by
  unfold freeName
  rw [if_neg]
  simp only [keys, afterNew, List.map_append, List.map_cons, List.map_nil, List.contains_eq_mem,
    List.mem_append, List.mem_singleton, decide_eq_true_eq, not_or]
  exact ⟨by simpa [keys] using hname, hna⟩

theorem renamePlain_afterNew_models (r : Reg) (name : String) (hname : name ∉ keys r)
    (hna : name ≠ (autoName r).2) :
    (renamePlain (afterNew r) (autoName r).2 name).1.models =
      r.models ++ [(name, { id := r.nextId, name := name })] := by
  unfold renamePlain
  rw [if_neg hna, if_neg]
  · simp only [moveKey, afterNew]
    rw [lookupName_append_single r.models _ _ (auto_fresh r)]
    simp only []
    rw [eraseName_append_single_self r.models _ _ (auto_fresh r)]
  · simp only [keys, afterNew, List.map_append, List.map_cons, List.map_nil, List.contains_eq_mem,
      List.mem_append, List.mem_singleton, decide_eq_true_eq, not_or]
    exact ⟨by simpa [keys] using hname, hna⟩

theorem loadReg_failed_models (kw : List String) (r : Reg) (h : RegInv r) (name : String)
    (f : LoadFail) (hf : f ≠ .nowhere) (hname : name ∉ keys r) :
    (loadReg kw r name f).models = r.models := by
  cases f with
  | nowhere => exact absurd rfl hf
  | beforeNew => rfl
  | rootSource =>
    simp only [loadReg, newModel_none_eq]
    exact close_afterNew_models h
  | afterRename =>
    simp only [loadReg, readModel, newModel_none_eq, Registry.rename, lookupId_afterNew h]
    by_cases hna : name = (autoName r).2
    · rw [if_pos hna]
      simp only [if_true]
      exact close_afterNew_models h
    · rw [if_neg hna]
      simp only [if_true, freeName_afterNew r name hname hna]
      by_cases hv : isValidName kw name = true
      · simp only [hv, Bool.not_true, Bool.false_eq_true, if_false]
        have hrp := renamePlain_afterNew_models r name hname hna
        have hlid2 : lookupId (renamePlain (afterNew r) (autoName r).2 name).1.models r.nextId =
            some { id := r.nextId, name := name } := by
          rw [hrp]
          exact lookupId_append_single r.models name { id := r.nextId, name := name }
            (nextId_fresh h)
        rw [close_models hlid2, hrp]
        exact eraseName_append_single_self r.models name _
          (by simpa [keys_eq, mkeys] using hname)
      · have hv' : isValidName kw name = false := by
          cases hb : isValidName kw name with
          | true => exact absurd hb hv
          | false => rfl
        simp only [hv', Bool.not_false, if_true]
        exact close_afterNew_models h

end MxModel.Backup
