import MxModel.Proofs.ExecGraph
import MxModel.Proofs.ExecFrame
/-!
# Only cells that exist get graph nodes

`AliveG env s`: every node of the trace graph – element node or object node – belongs to a cells
that exists (`env.alive`), and so does every frame of the call stack.  An evaluation preserves
it: `eval_node` is entered from a formula only for a cells whose name is bound (`evalNode` answers
the caller of a missing cells itself, without touching the state), so frames – and hence the
nodes and edges that `pop` / a cache hit add – are of existing cells only.  Consequences: a
deleted cells holds nothing and has no node (C13), and every recorded callee of a certificate
exists (used by the soundness theorem `cinv_sound`).
-/
namespace MxModel.Exec

structure AliveG (env : Env) (s : St) : Prop where
  nodes : ∀ x ∈ s.gn, env.alive x.cell = true
  stack : ∀ m ∈ s.stack, env.alive m.1 = true

variable {env : Env}

theorem AliveG.empty (env : Env) : AliveG env {} :=
  ⟨fun x hx => by simp at hx, fun m hm => by simp at hm⟩

/-- a step that keeps the graph nodes and the stack -/
theorem AliveG.of_same {s s' : St} (h : AliveG env s) (hgn : s'.gn = s.gn) (hst : s'.stack = s.stack) :
    AliveG env s' :=
  ⟨fun x hx => h.nodes x (hgn ▸ hx), fun m hm => h.stack m (hst ▸ hm)⟩

theorem stack_addNode (s : St) (a : GNode) : (s.addNode a).stack = s.stack := by
  unfold St.addNode; split <;> rfl

theorem stack_addEdge (s : St) (a b : GNode) : (s.addEdge a b).stack = s.stack := by
  unfold St.addEdge St.addNode; simp only []; repeat' split
  all_goals rfl

theorem AliveG.addNode {s : St} (h : AliveG env s) (a : GNode) (ha : env.alive a.cell = true) :
    AliveG env (s.addNode a) := by
  refine ⟨?_, by rw [stack_addNode]; exact h.stack⟩
  intro x hx
  rcases (mem_addNode_gn s a x).mp hx with hx | rfl
  · exact h.nodes x hx
  · exact ha

theorem AliveG.addEdge {s : St} (h : AliveG env s) (a b : GNode) (ha : env.alive a.cell = true)
    (hb : env.alive b.cell = true) : AliveG env (s.addEdge a b) := by
  refine ⟨?_, by rw [stack_addEdge]; exact h.stack⟩
  intro x hx
  rcases (mem_addEdge_gn s a b x).mp hx with hx | rfl | rfl
  · exact h.nodes x hx
  · exact ha
  · exact hb

theorem AliveG.hitEdge {s : St} (h : AliveG env s) (n : Node) (hn : env.alive n.1 = true) :
    AliveG env (s.hitEdge n) := by
  unfold St.hitEdge
  split
  · rename_i t ht
    exact h.addEdge _ _ hn (h.stack t (edgeTarget_mem s t ht))
  · exact h

theorem AliveG.dropFrame {s : St} (h : AliveG env s) : AliveG env s.dropFrame :=
  ⟨h.nodes, fun m hm => h.stack m (List.dropLast_subset _ hm)⟩

theorem AliveG.pop {s : St} (h : AliveG env s) (n : Node) (hn : env.alive n.1 = true) :
    AliveG env (s.pop env n) := by
  unfold St.pop
  have h1 := h.dropFrame
  have h2 : AliveG env (s.dropFrame.popEdge env n) := by
    unfold St.popEdge
    split
    · rename_i t ht
      refine h1.addEdge _ _ ?_ (h1.stack t (edgeTarget_mem _ t ht))
      split <;> exact hn
    · split
      · exact h1.addNode _ hn
      · exact h1
  have hd := drainSame env (s.dropFrame.popEdge env n) n
  exact h2.of_same hd.gn hd.stack

theorem AliveG.rollback {s : St} (h : AliveG env s) (n : Node) : AliveG env (s.rollback n) := by
  unfold St.rollback
  refine ⟨?_, ?_⟩
  · intro x hx
    have : x ∈ s.gn := by
      simp only [St.removeNode, St.dropFrame, List.mem_filter] at hx
      exact hx.1
    exact h.nodes x this
  · intro m hm
    have : m ∈ s.stack.dropLast := by simpa [St.removeNode, St.dropFrame] using hm
    exact h.stack m (List.dropLast_subset _ this)

theorem AliveG.push {s : St} (h : AliveG env s) (n : Node) (hn : env.alive n.1 = true) :
    AliveG env (s.push env n) := by
  refine ⟨h.nodes, ?_⟩
  intro m hm
  simp only [St.push, List.mem_append, List.mem_singleton] at hm
  rcases hm with hm | rfl
  · exact h.stack m hm
  · exact hn

/-! ### evaluation -/

def CalleeA (env : Env) (f : Node → St → Res × St) : Prop :=
  ∀ n s, AliveG env s → AliveG env (f n s).2

/-- the evaluator proper is entered for cells that exist only -/
def EvalA (env : Env) (f : Node → St → Res × St) : Prop :=
  ∀ n s, env.alive n.1 = true → AliveG env s → AliveG env (f n s).2

theorem runBody_alive (f : Node → St → Res × St) (hf : CalleeA env f) :
    ∀ (p : Prog) (s : St), AliveG env s → AliveG env (runBody env f p s).2 := by
  intro p
  induction p with
  | ret v => intro s h; exact h
  | raise e => intro s h; exact h.of_same rfl rfl
  | reraise e => intro s h; exact h
  | read a r k ih =>
    intro s h
    simp only [runBody]
    refine ih _ _ (h.of_same ?_ ?_)
    · unfold St.noteRead; split <;> rfl
    · unfold St.noteRead; split <;> rfl
  | call n k ih =>
    intro s h
    simp only [runBody]
    exact ih _ _ (hf n s h)

theorem evalNode_alive (ef : Node → St → Res × St) (hef : EvalA env ef) : CalleeA env (evalNode env ef) := by
  intro n s h
  unfold evalNode
  split
  · rename_i ha
    split
    · split
      · exact h.hitEdge n ha
      · exact hef n s ha h
    · exact hef n s ha h
  · exact h.of_same rfl rfl

theorem runN_alive : ∀ d, EvalA env (runN env d) := by
  intro d
  induction d with
  | zero => intro n s _ h; exact h.of_same rfl rfl
  | succ d ih =>
    intro n s hn h
    have hb := runBody_alive _ (evalNode_alive _ ih) (env.formula n) (s.push env n) (h.push n hn)
    simp only [runN]
    generalize runBody env (evalNode env (runN env d)) (env.formula n) (s.push env n) = p at hb
    obtain ⟨r, s1⟩ := p
    simp only [] at hb ⊢
    cases r with
    | err e => exact hb.rollback n
    | ok v =>
      simp only []
      split
      · split
        · exact (hb.of_same (s' := s1.newExc) rfl rfl).rollback n
        · exact (hb.of_same (s' := { s1 with data := insert s1.data n v }) rfl rfl).pop n hn
      · exact hb.pop n hn

theorem evalTop_alive (n : Node) (s : St) (hn : env.alive n.1 = true) (h : AliveG env s) :
    AliveG env (evalTop env n s).2 := by
  unfold evalTop
  split
  · exact h
  · have := runN_alive (env := env) (env.maxdepth + 1) n s hn h
    generalize runN env (env.maxdepth + 1) n s = p at this
    obtain ⟨r, s1⟩ := p
    cases r <;> exact this.of_same rfl rfl

/-! ### clearing, value edits -/

theorem AliveG.of_gn_sub {env' : Env} {s s' : St} (h : AliveG env s) (hgn : ∀ x ∈ s'.gn, x ∈ s.gn)
    (hst : s'.stack = s.stack) (hal : ∀ x ∈ s'.gn, env'.alive x.cell = env.alive x.cell)
    (hstack : s.stack = []) : AliveG env' s' :=
  ⟨fun x hx => by rw [hal x hx]; exact h.nodes x (hgn x hx),
   fun m hm => by rw [hst, hstack] at hm; cases hm⟩

end MxModel.Exec
