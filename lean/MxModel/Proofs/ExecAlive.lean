import MxModel.Proofs.ExecGraph
import MxModel.Proofs.ExecFrame
import MxModel.Proofs.Reach
/-!
# Only cells that exist get graph nodes

`AliveG env s`: every node of the trace graph – element node or object node – belongs to a cells
that exists (`env.alive`), and so does every frame of the call stack.  An evaluation preserves
it: `eval_node` is entered from a formula only for a cells whose name is bound (`evalNode` answers
the caller of a missing cells itself, without touching the state), so frames – and hence the
nodes and edges that `pop` / a cache hit add – are of existing cells only.  Consequences: a
deleted cells holds nothing and has no node (C13), and every recorded callee of a certificate
exists (used by the soundness theorem `cinv_sound`).
-/
namespace MxModel.Exec

structure AliveG (env : Env) (s : St) : Prop where
  nodes : ∀ x ∈ s.gn, env.alive x.cell = true
  stack : ∀ m ∈ s.stack, env.alive m.1 = true
  /-- object nodes stand for uncached cells only -/
  objs : ∀ c, GNode.obj c ∈ s.gn → env.cached c = false

variable {env : Env}

theorem AliveG.empty (env : Env) : AliveG env {} :=
  ⟨fun x hx => by simp at hx, fun m hm => by simp at hm, fun c hc => by simp at hc⟩

/-- a step that keeps the graph nodes and the stack -/
theorem AliveG.of_same {s s' : St} (h : AliveG env s) (hgn : s'.gn = s.gn) (hst : s'.stack = s.stack) :
    AliveG env s' :=
  ⟨fun x hx => h.nodes x (hgn ▸ hx), fun m hm => h.stack m (hst ▸ hm), fun c hc => h.objs c (hgn ▸ hc)⟩

theorem stack_addNode (s : St) (a : GNode) : (s.addNode a).stack = s.stack := by
  unfold St.addNode; split <;> rfl

theorem stack_addEdge (s : St) (a b : GNode) : (s.addEdge a b).stack = s.stack := by
  unfold St.addEdge St.addNode; simp only []; repeat' split
  all_goals rfl

/-- a node that may be added: of an existing cells, an object node only for an uncached one -/
def NodeOK (env : Env) (a : GNode) : Prop :=
  env.alive a.cell = true ∧ ∀ c, a = .obj c → env.cached c = false

theorem NodeOK.elem {n : Node} (h : env.alive n.1 = true) : NodeOK env (.elem n) :=
  ⟨h, fun _ hc => by cases hc⟩

theorem AliveG.addNode {s : St} (h : AliveG env s) (a : GNode) (ha : NodeOK env a) :
    AliveG env (s.addNode a) := by
  refine ⟨?_, by rw [stack_addNode]; exact h.stack, ?_⟩
  · intro x hx
    rcases (mem_addNode_gn s a x).mp hx with hx | rfl
    · exact h.nodes x hx
    · exact ha.1
  · intro c hc
    rcases (mem_addNode_gn s a _).mp hc with hc | hc
    · exact h.objs c hc
    · exact ha.2 c hc.symm

theorem AliveG.addEdge {s : St} (h : AliveG env s) (a b : GNode) (ha : NodeOK env a)
    (hb : NodeOK env b) : AliveG env (s.addEdge a b) := by
  refine ⟨?_, by rw [stack_addEdge]; exact h.stack, ?_⟩
  · intro x hx
    rcases (mem_addEdge_gn s a b x).mp hx with hx | rfl | rfl
    · exact h.nodes x hx
    · exact ha.1
    · exact hb.1
  · intro c hc
    rcases (mem_addEdge_gn s a b _).mp hc with hc | hc | hc
    · exact h.objs c hc
    · exact ha.2 c hc.symm
    · exact hb.2 c hc.symm

theorem AliveG.hitEdge {s : St} (h : AliveG env s) (n : Node) (hn : env.alive n.1 = true) :
    AliveG env (s.hitEdge n) := by
  unfold St.hitEdge
  split
  · rename_i t ht
    exact h.addEdge _ _ (NodeOK.elem hn) (NodeOK.elem (h.stack t (edgeTarget_mem s t ht)))
  · exact h

theorem AliveG.dropFrame {s : St} (h : AliveG env s) : AliveG env s.dropFrame :=
  ⟨h.nodes, fun m hm => h.stack m (List.dropLast_subset _ hm), h.objs⟩

theorem AliveG.pop {s : St} (h : AliveG env s) (n : Node) (hn : env.alive n.1 = true) :
    AliveG env (s.pop env n) := by
  unfold St.pop
  have h1 := h.dropFrame
  have h2 : AliveG env (s.dropFrame.popEdge env n) := by
    unfold St.popEdge
    split
    · rename_i t ht
      refine h1.addEdge _ _ ?_ (NodeOK.elem (h1.stack t (edgeTarget_mem _ t ht)))
      split
      · exact NodeOK.elem hn
      · rename_i hc
        refine ⟨hn, fun c hcc => ?_⟩
        cases hcc
        simpa using hc
    · split
      · exact h1.addNode _ (NodeOK.elem hn)
      · exact h1
  have hd := drainSame env (s.dropFrame.popEdge env n) n
  exact h2.of_same hd.gn hd.stack

theorem AliveG.rollback {s : St} (h : AliveG env s) (n : Node) : AliveG env (s.rollback n) := by
  unfold St.rollback
  have hsub : ∀ x, x ∈ (({ s.dropFrame with rolledback := s.rolledback ++ [(n, s.curExc)] } : St).removeNode
      (.elem n)).gn → x ∈ s.gn := by
    intro x hx
    simp only [St.removeNode, St.dropFrame, List.mem_filter] at hx
    exact hx.1
  refine ⟨fun x hx => h.nodes x (hsub x hx), ?_, fun c hc => h.objs c (hsub _ hc)⟩
  intro m hm
  have : m ∈ s.stack.dropLast := by simpa [St.removeNode, St.dropFrame] using hm
  exact h.stack m (List.dropLast_subset _ this)

theorem AliveG.push {s : St} (h : AliveG env s) (n : Node) (hn : env.alive n.1 = true) :
    AliveG env (s.push env n) := by
  refine ⟨h.nodes, ?_, h.objs⟩
  intro m hm
  simp only [St.push, List.mem_append, List.mem_singleton] at hm
  rcases hm with hm | rfl
  · exact h.stack m hm
  · exact hn

/-! ### evaluation -/

def CalleeA (env : Env) (f : Node → St → Res × St) : Prop :=
  ∀ n s, AliveG env s → AliveG env (f n s).2

/-- the evaluator proper is entered for cells that exist only -/
def EvalA (env : Env) (f : Node → St → Res × St) : Prop :=
  ∀ n s, env.alive n.1 = true → AliveG env s → AliveG env (f n s).2

theorem runBody_alive (f : Node → St → Res × St) (hf : CalleeA env f) :
    ∀ (p : Prog) (s : St), AliveG env s → AliveG env (runBody env f p s).2 := by
  intro p
  induction p with
  | ret v => intro s h; exact h
  | raise e => intro s h; exact h.of_same rfl rfl
  | reraise e => intro s h; exact h
  | read a r k ih =>
    intro s h
    simp only [runBody]
    refine ih _ _ (h.of_same ?_ ?_)
    · unfold St.noteRead; split <;> rfl
    · unfold St.noteRead; split <;> rfl
  | call n k ih =>
    intro s h
    simp only [runBody]
    exact ih _ _ (hf n s h)

theorem evalNode_alive (ef : Node → St → Res × St) (hef : EvalA env ef) : CalleeA env (evalNode env ef) := by
  intro n s h
  unfold evalNode
  split
  · rename_i ha
    split
    · split
      · exact h.hitEdge n ha
      · exact (hef n s ha h).of_same (keepExc_excOnly s _).gn (keepExc_excOnly s _).stack
    · exact (hef n s ha h).of_same (keepExc_excOnly s _).gn (keepExc_excOnly s _).stack
  · exact h.of_same rfl rfl

theorem runN_alive : ∀ d, EvalA env (runN env d) := by
  intro d
  induction d with
  | zero => intro n s _ h; exact h.of_same rfl rfl
  | succ d ih =>
    intro n s hn h
    have hb := runBody_alive _ (evalNode_alive _ ih) (env.formula n) (s.push env n) (h.push n hn)
    simp only [runN]
    generalize runBody env (evalNode env (runN env d)) (env.formula n) (s.push env n) = p at hb
    obtain ⟨r, s1⟩ := p
    simp only [] at hb ⊢
    cases r with
    | err e => exact hb.rollback n
    | ok v =>
      simp only []
      split
      · split
        · exact (hb.of_same (s' := s1.newExc) rfl rfl).rollback n
        · exact (hb.of_same (s' := { s1 with data := insert s1.data n v }) rfl rfl).pop n hn
      · exact hb.pop n hn

theorem evalTop_alive (n : Node) (s : St) (hn : env.alive n.1 = true) (h : AliveG env s) :
    AliveG env (evalTop env n s).2 := by
  unfold evalTop
  split
  · exact h
  · have := runN_alive (env := env) (env.maxdepth + 1) n s hn h
    generalize runN env (env.maxdepth + 1) n s = p at this
    obtain ⟨r, s1⟩ := p
    cases r <;> exact this.of_same rfl rfl

/-! ### clearing, value edits -/

theorem AliveG.of_gn_sub {env' : Env} {s s' : St} (h : AliveG env s) (hgn : ∀ x ∈ s'.gn, x ∈ s.gn)
    (hst : s'.stack = s.stack) (hal : ∀ x ∈ s'.gn, env'.alive x.cell = env.alive x.cell)
    (hca : ∀ c, GNode.obj c ∈ s'.gn → env'.cached c = env.cached c)
    (hstack : s.stack = []) : AliveG env' s' :=
  ⟨fun x hx => (hal x hx).trans (h.nodes x (hgn x hx)),
   fun m hm => (by rw [hst, hstack] at hm; cases hm),
   fun c hc => (hca c hc).trans (h.objs c (hgn _ hc))⟩

/-! ### the reference graph points at held elements only

An edge `(r, n)` enters the reference graph when the frame of the cached element `n` is popped,
right after its value was stored; clearing an element removes the edges into it. -/

def RgHeld (s : St) : Prop := ∀ e ∈ s.rg, (lookup s.data e.2).isSome = true

theorem RgHeld.of_same {s s' : St} (h : RgHeld s) (hrg : s'.rg = s.rg) (hext : Ext s s') : RgHeld s' := by
  intro e he
  rw [hrg] at he
  cases hl : lookup s.data e.2 with
  | none => have := h e he; rw [hl] at this; cases this
  | some v => rw [hext e.2 v hl]; rfl

def CalleeR (f : Node → St → Res × St) : Prop := ∀ n s, RgHeld s → RgHeld (f n s).2

theorem rg_addEdge (s : St) (a b : GNode) : (s.addEdge a b).rg = s.rg := by
  unfold St.addEdge St.addNode; simp only []; repeat' split
  all_goals rfl

theorem rg_addNode (s : St) (a : GNode) : (s.addNode a).rg = s.rg := by
  unfold St.addNode; split <;> rfl

theorem rg_hitEdge (s : St) (n : Node) : (s.hitEdge n).rg = s.rg := by
  unfold St.hitEdge; split
  · exact rg_addEdge _ _ _
  · rfl

theorem runBody_rgHeld (f : Node → St → Res × St) (hf : CalleeR f) :
    ∀ (p : Prog) (s : St), RgHeld s → RgHeld (runBody env f p s).2 := by
  intro p
  induction p with
  | ret v => intro s h; exact h
  | raise e => intro s h; exact h.of_same rfl (Ext.of_data rfl)
  | reraise e => intro s h; exact h
  | read a r k ih =>
    intro s h
    simp only [runBody]
    exact ih _ _ (h.of_same (by unfold St.noteRead; split <;> rfl) (Ext.of_data (sameCache_noteRead s _ r).data))
  | call n k ih =>
    intro s h
    simp only [runBody]
    exact ih _ _ (hf n s h)

theorem evalNode_rgHeld (ef : Node → St → Res × St) (hef : CalleeR ef) : CalleeR (evalNode env ef) := by
  intro n s h
  unfold evalNode
  split
  · split
    · split
      · exact h.of_same (rg_hitEdge s n) (Ext.of_data (sameCache_hitEdge s n).data)
      · exact (hef n s h).of_same (keepExc_excOnly s _).rg (Ext.of_data (keepExc_excOnly s _).data)
    · exact (hef n s h).of_same (keepExc_excOnly s _).rg (Ext.of_data (keepExc_excOnly s _).data)
  · exact h.of_same rfl (Ext.of_data rfl)

theorem RgHeld.rollback {s : St} (h : RgHeld s) (n : Node) : RgHeld (s.rollback n) :=
  h.of_same rfl (Ext.of_data rfl)

/-- `pop` of a frame whose element holds a value when it is cached -/
theorem RgHeld.pop {s : St} (h : RgHeld s) (n : Node)
    (hn : env.cached n.1 = true → (lookup s.data n).isSome = true) : RgHeld (s.pop env n) := by
  unfold St.pop
  have h1 : RgHeld (s.dropFrame.popEdge env n) := by
    refine h.of_same (s := s) ?_ (Ext.of_data ?_)
    · unfold St.popEdge; split
      · exact rg_addEdge _ _ _
      · split
        · exact rg_addNode _ _
        · rfl
    · have := (sameCache_pop env s n).data
      unfold St.popEdge; split
      · exact (sameCache_addEdge _ _ _).data
      · split
        · exact (sameCache_addNode _ _).data
        · rfl
  have hdata : (s.dropFrame.popEdge env n).data = s.data := by
    unfold St.popEdge; split
    · exact (sameCache_addEdge _ _ _).data
    · split
      · exact (sameCache_addNode _ _).data
      · rfl
  generalize s.dropFrame.popEdge env n = s1 at h1 hdata
  unfold St.drainRefs
  split
  · rename_i hc
    intro e he
    simp only [List.mem_append, List.mem_filter] at he
    rcases he with he | ⟨he, _⟩
    · exact h1 e he
    · rw [mem_eraseDups, List.mem_map] at he
      obtain ⟨r, _, rfl⟩ := he
      show (lookup s1.data n).isSome = true
      rw [hdata]; exact hn hc
  · split <;> exact h1

theorem runN_rgHeld : ∀ d, CalleeR (runN env d) := by
  intro d
  induction d with
  | zero => intro n s h; exact h.of_same rfl (Ext.of_data rfl)
  | succ d ih =>
    intro n s h
    have hb := runBody_rgHeld (env := env) _ (evalNode_rgHeld (env := env) _ ih) (env.formula n) (s.push env n)
      (h.of_same rfl (Ext.of_data rfl))
    simp only [runN]
    generalize runBody env (evalNode env (runN env d)) (env.formula n) (s.push env n) = p at hb
    obtain ⟨r, s1⟩ := p
    simp only [] at hb ⊢
    cases r with
    | err e => exact hb.rollback n
    | ok v =>
      simp only []
      split
      · rename_i hc
        split
        · exact (hb.of_same (s' := s1.newExc) rfl (Ext.of_data rfl)).rollback n
        · refine RgHeld.pop (s := { s1 with data := insert s1.data n v }) ?_ n (fun _ => by simp [lookup_insert])
          intro e he
          have := hb e he
          show (lookup (insert s1.data n v) e.2).isSome = true
          rw [lookup_insert]; split
          · rfl
          · exact this
      · rename_i hc
        exact hb.pop n (fun h' => absurd h' hc)

theorem evalTop_rgHeld (n : Node) (s : St) (h : RgHeld s) : RgHeld (evalTop env n s).2 := by
  unfold evalTop
  split
  · exact h
  · have := runN_rgHeld (env := env) (env.maxdepth + 1) n s h
    generalize runN env (env.maxdepth + 1) n s = p at this
    obtain ⟨r, s1⟩ := p
    cases r <;> exact this.of_same rfl (Ext.of_data rfl)

end MxModel.Exec
