import MxModel.Proofs.ExecCertClear
/-!
# Removing a successor-closed set preserves the certificates (K1/K2)

`cinv_clr`: let the clearing of an edit take `s` to `s'` (`Clr`), and let the edit change the
environment from `env` to `env'`.  If no certificate of a surviving element mentions anything
the edit changed (**K1** – stated per surviving element, to be discharged from what the
clearing is known to remove), then every surviving element keeps its certificate w.r.t. the
new environment.  **K2** (a removed callee takes its callers with it) is the closure of the
removed set under graph successors, which `Clr` carries.
-/
namespace MxModel.Exec

/-- what one recorded event needs of the change `env ↦ env'` -/
def Stable (env env' : Env) : FEv → Prop
  | .read _ _ r _ => env'.refs r = env.refs r
  | .call m _ => env'.cached m.1 = env.cached m.1
  | .ucall m => env'.cached m.1 = env.cached m.1 ∧ env'.formula m = env.formula m

theorem replay_congr (env env' : Env) : ∀ (tr : Tr) (c : CellId) (p : Prog) (v : Val),
    Replay env tr p v → (∀ ev ∈ flat c tr, Stable env env' ev) → Replay env' tr p v := by
  intro tr
  induction tr with
  | nil => intro c p v h _; exact h
  | read a r x t ih =>
    intro c p v h hs
    cases p with
    | read a' r' k =>
      simp only [Replay] at h ⊢
      exact ⟨h.1, h.2.1, ih c _ v h.2.2 (fun ev hm => hs ev (by simp [flat, hm]))⟩
    | ret _ => simp [Replay] at h
    | raise _ => simp [Replay] at h
    | reraise _ => simp [Replay] at h
    | call _ _ => simp [Replay] at h
  | call m w t ih =>
    intro c p v h hs
    cases p with
    | call m' k =>
      simp only [Replay] at h ⊢
      obtain ⟨rfl, hc, hr⟩ := h
      have hst : env'.cached m'.1 = env.cached m'.1 := hs (.call m' w) (by simp [flat])
      exact ⟨rfl, by rw [hst]; exact hc, ih c _ v hr (fun ev hm => hs ev (by simp [flat, hm]))⟩
    | ret _ => simp [Replay] at h
    | raise _ => simp [Replay] at h
    | reraise _ => simp [Replay] at h
    | read _ _ _ => simp [Replay] at h
  | ucall m w sub t ihs iht =>
    intro c p v h hs
    cases p with
    | call m' k =>
      simp only [Replay] at h ⊢
      obtain ⟨rfl, hc, hrs, hrt⟩ := h
      have hst : env'.cached m'.1 = env.cached m'.1 ∧ env'.formula m' = env.formula m' :=
        hs (.ucall m') (by simp [flat])
      refine ⟨rfl, by rw [hst.1]; exact hc, ?_, iht c _ v hrt (fun ev hm => hs ev (by simp [flat, hm]))⟩
      rw [hst.2]
      exact ihs m'.1 _ w hrs (fun ev hm => hs ev (by simp [flat, hm]))
    | ret _ => simp [Replay] at h
    | raise _ => simp [Replay] at h
    | reraise _ => simp [Replay] at h
    | read _ _ _ => simp [Replay] at h

/-- **the local preservation lemma** -/
theorem cinv_clr {env env' : Env} {s s' : St} {R : List GNode} {D : RefId × Node → Prop}
    (hc : Clr s R D s') (hinv : CInv env s)
    (K1 : ∀ n v tr, lookup s.data n = some v → n ∉ s.inputs → GNode.elem n ∉ R → Cert env s n v tr →
      env'.formula n = env.formula n ∧ env'.allowNone n.1 = env.allowNone n.1 ∧
      (∀ ev ∈ flat n.1 tr, Stable env env' ev) ∧
      (∀ c r x, FEv.read c true r x ∈ flat n.1 tr → ¬ D (r, n))) :
    CInv env' s' := by
  intro n v hl hin
  rw [hc.lookup] at hl
  split at hl
  · cases hl
  · rename_i hnR
    have hin0 : n ∉ s.inputs := fun h => hin ((hc.mem_inputs n).mpr ⟨h, hnR⟩)
    obtain ⟨tr, hcert⟩ := hinv n v hl hin0
    obtain ⟨hform, hnone, hstable, hD⟩ := K1 n v tr hl hin0 hnR hcert
    refine ⟨tr, ?_, ?_, ?_, fun a ha => hcert.just a ((hc.mem_ge _).mp ha).1⟩
    · rw [hform]; exact replay_congr env env' tr n.1 _ v hcert.replay hstable
    · intro hv; rw [hnone]; exact hcert.noneOK hv
    · intro ev hm
      have hok := hcert.events ev hm
      have hst := hstable ev hm
      cases ev with
      | read c a r x =>
        refine ⟨by rw [show env'.refs r = env.refs r from hst]; exact hok.1, ?_⟩
        intro ha hx
        subst ha
        exact hc.rgKeep (r, n) (hok.2 rfl hx) hnR (hD c r x hm)
      | call m w =>
        obtain ⟨hlm, hrk, hedge⟩ := hok
        have hmR : GNode.elem m ∉ R := fun h => hnR (hc.closed _ _ hedge h)
        have hmn : m ≠ n := by intro h; subst h; omega
        refine ⟨by rw [hc.lookup, if_neg hmR]; exact hlm, ?_, (hc.mem_ge _).mpr ⟨hedge, hmR, hnR⟩⟩
        rw [hc.data]
        exact (rank_filter_lt (keepB R) s.data m n (by simpa [keepB] using hmR) (by simpa [keepB] using hnR)
          hmn (rank_pos_of_lookup hlm) hrk).1
      | ucall m =>
        have hoR : GNode.obj m.1 ∉ R := fun h => hnR (hc.closed _ _ hok h)
        exact (hc.mem_ge _).mpr ⟨hok, hoR, hnR⟩

/-! ### the graph invariant survives a clearing, and a change of environment that keeps the
flags of the cells present -/

theorem GI.of_clr {env env' : Env} {lt : Node → Node → Prop} {s s' : St} {R : List GNode}
    {D : RefId × Node → Prop} (g : GI env lt s) (hst : s.stack = []) (hc : Clr s R D s')
    (hflags : ∀ m, GNode.elem m ∈ s'.gn → env'.cached m.1 = env.cached m.1) : GI env' lt s' := by
  have hstack : s'.stack = [] := hc.stack.trans hst
  constructor
  · intro m hm
    obtain ⟨h1, h2⟩ := (hc.mem_gn _).mp hm
    left
    rw [hc.lookup, if_neg h2]
    rcases g.nodesHeld m h1 with h | h
    · exact h
    · rw [hst] at h; cases h
  · intro m hm
    rw [hc.lookup] at hm
    split at hm
    · cases hm
    · rename_i hnot
      have hin := (hc.mem_gn _).mpr ⟨(g.heldNodes m hm).1, hnot⟩
      exact ⟨hin, by rw [hflags m hin]; exact (g.heldNodes m hm).2⟩
  · intro m hm; rw [hstack] at hm; cases hm
  · intro a b hab; exact g.edgesOrd a b ((hc.mem_ge _).mp hab).1
  · intro a b hab
    obtain ⟨h1, h2, h3⟩ := (hc.mem_ge _).mp hab
    exact ⟨(hc.mem_gn _).mpr ⟨(g.edgeNodes a b h1).1, h2⟩, (hc.mem_gn _).mpr ⟨(g.edgeNodes a b h1).2, h3⟩⟩
  · intro m hm
    obtain ⟨h1, h2⟩ := (hc.mem_inputs m).mp hm
    rw [hc.lookup, if_neg h2]; exact g.inputsHeld m h1
  · intro a m ham hin
    exact g.inputsNoPreds a m ((hc.mem_ge _).mp ham).1 ((hc.mem_inputs m).mp hin).1
  · intro m hm
    rw [hflags m hm]; exact g.elemCached m ((hc.mem_gn _).mp hm).1

theorem GI.edgeOK {env : Env} {lt : Node → Node → Prop} {s : St} (g : GI env lt s) : EdgeOK s :=
  fun x y h => g.edgeNodes x y h

/-! ### facts about traces used to discharge K1 -/

/-- a read recorded in a trace was made by the element's own formula or by an uncached callee
recorded in the same trace -/
theorem flat_read_frame : ∀ (tr : Tr) (c c' : CellId) (a : Bool) (r : RefId) (x : Option Val),
    FEv.read c' a r x ∈ flat c tr → c' = c ∨ ∃ m, FEv.ucall m ∈ flat c tr ∧ m.1 = c' := by
  intro tr
  induction tr with
  | nil => intro c c' a r x h; simp [flat] at h
  | read a0 r0 x0 t ih =>
    intro c c' a r x h
    simp only [flat, List.mem_cons, FEv.read.injEq] at h
    rcases h with h | h
    · exact Or.inl h.1
    · rcases ih c c' a r x h with h' | ⟨m, hm, hc⟩
      · exact Or.inl h'
      · exact Or.inr ⟨m, by simp [flat, hm], hc⟩
  | call m0 w0 t ih =>
    intro c c' a r x h
    simp only [flat, List.mem_cons, reduceCtorEq, false_or] at h
    rcases ih c c' a r x h with h' | ⟨m, hm, hc⟩
    · exact Or.inl h'
    · exact Or.inr ⟨m, by simp [flat, hm], hc⟩
  | ucall m0 w0 sub t ihs iht =>
    intro c c' a r x h
    simp only [flat, List.mem_cons, reduceCtorEq, false_or, List.mem_append] at h
    rcases h with h | h
    · rcases ihs m0.1 c' a r x h with h' | ⟨m, hm, hc⟩
      · exact Or.inr ⟨m0, by simp [flat], h'.symm⟩
      · exact Or.inr ⟨m, by simp [flat, hm], hc⟩
    · rcases iht c c' a r x h with h' | ⟨m, hm, hc⟩
      · exact Or.inl h'
      · exact Or.inr ⟨m, by simp [flat, hm], hc⟩

/-- recorded uncached callees are uncached; by-name reads obey static scoping; no attribute
path to a missing reference is recorded in a trace that ends in a value -/
theorem replay_facts (env : Env) (hsc : Scoped env) (hnc : NoCatchEnv env) :
    ∀ (tr : Tr) (c : CellId) (p : Prog) (v : Val), Replay env tr p v →
      NameReadsIn (fun r => c ∈ env.observers r) p → NoCatch p →
      (∀ m, FEv.ucall m ∈ flat c tr → env.cached m.1 = false) ∧
      (∀ c' r x, FEv.read c' false r x ∈ flat c tr → c' ∈ env.observers r) ∧
      (∀ c' r, FEv.read c' true r none ∉ flat c tr) := by
  have replay_not_fails : ∀ (tr : Tr) (p : Prog) (v : Val), Replay env tr p v → Fails p → False := by
    intro tr
    induction tr with
    | nil => intro p v h hf; simp only [Replay] at h; subst h; exact hf
    | read a r x t ih =>
      intro p v h hf
      cases p with
      | read a' r' k => simp only [Replay] at h; exact ih _ v h.2.2 (hf x)
      | ret _ => simp [Replay] at h
      | raise _ => simp [Replay] at h
      | reraise _ => simp [Replay] at h
      | call _ _ => simp [Replay] at h
    | call m w t ih =>
      intro p v h hf
      cases p with
      | call m' k => simp only [Replay] at h; exact ih _ v h.2.2 (hf _)
      | ret _ => simp [Replay] at h
      | raise _ => simp [Replay] at h
      | reraise _ => simp [Replay] at h
      | read _ _ _ => simp [Replay] at h
    | ucall m w sub t _ iht =>
      intro p v h hf
      cases p with
      | call m' k => simp only [Replay] at h; exact iht _ v h.2.2.2 (hf _)
      | ret _ => simp [Replay] at h
      | raise _ => simp [Replay] at h
      | reraise _ => simp [Replay] at h
      | read _ _ _ => simp [Replay] at h
  intro tr
  induction tr with
  | nil => intro c p v _ _ _; simp [flat]
  | read a r x t ih =>
    intro c p v h hs hn
    cases p with
    | read a' r' k =>
      simp only [Replay] at h
      obtain ⟨rfl, rfl, hr⟩ := h
      simp only [NameReadsIn, NoCatch] at hs hn
      obtain ⟨i1, i2, i3⟩ := ih c _ v hr (hs.2 x) (hn.2 x)
      refine ⟨?_, ?_, ?_⟩
      · intro m hm; simp only [flat, List.mem_cons, reduceCtorEq, false_or] at hm; exact i1 m hm
      · intro c' r x' hm
        simp only [flat, List.mem_cons, FEv.read.injEq] at hm
        rcases hm with ⟨rfl, ha, rfl, _⟩ | hm
        · exact hs.1 ha.symm
        · exact i2 c' r x' hm
      · intro c' r hm
        simp only [flat, List.mem_cons, FEv.read.injEq] at hm
        rcases hm with ⟨_, ha, _, hx⟩ | hm
        · subst hx
          exact replay_not_fails t _ v hr (hn.1 ha.symm)
        · exact i3 c' r hm
    | ret _ => simp [Replay] at h
    | raise _ => simp [Replay] at h
    | reraise _ => simp [Replay] at h
    | call _ _ => simp [Replay] at h
  | call m w t ih =>
    intro c p v h hs hn
    cases p with
    | call m' k =>
      simp only [Replay] at h
      obtain ⟨rfl, _, hr⟩ := h
      simp only [NameReadsIn, NoCatch] at hs hn
      obtain ⟨i1, i2, i3⟩ := ih c _ v hr (hs _) (hn.2 _)
      refine ⟨?_, ?_, ?_⟩
      · intro m hm; simp only [flat, List.mem_cons, reduceCtorEq, false_or] at hm; exact i1 m hm
      · intro c' r x' hm; simp only [flat, List.mem_cons, reduceCtorEq, false_or] at hm; exact i2 c' r x' hm
      · intro c' r hm; simp only [flat, List.mem_cons, reduceCtorEq, false_or] at hm; exact i3 c' r hm
    | ret _ => simp [Replay] at h
    | raise _ => simp [Replay] at h
    | reraise _ => simp [Replay] at h
    | read _ _ _ => simp [Replay] at h
  | ucall m w sub t ihs iht =>
    intro c p v h hs hn
    cases p with
    | call m' k =>
      simp only [Replay] at h
      obtain ⟨rfl, hunc, hrs, hrt⟩ := h
      simp only [NameReadsIn, NoCatch] at hs hn
      obtain ⟨s1, s2, s3⟩ := ihs m'.1 _ w hrs (hsc m') (hnc m')
      obtain ⟨i1, i2, i3⟩ := iht c _ v hrt (hs _) (hn.2 _)
      refine ⟨?_, ?_, ?_⟩
      · intro m hm
        simp only [flat, List.mem_cons, FEv.ucall.injEq, List.mem_append] at hm
        rcases hm with rfl | hm | hm
        · exact hunc
        · exact s1 m hm
        · exact i1 m hm
      · intro c' r x' hm
        simp only [flat, List.mem_cons, reduceCtorEq, false_or, List.mem_append] at hm
        rcases hm with hm | hm
        · exact s2 c' r x' hm
        · exact i2 c' r x' hm
      · intro c' r hm
        simp only [flat, List.mem_cons, reduceCtorEq, false_or, List.mem_append] at hm
        rcases hm with hm | hm
        · exact s3 c' r hm
        · exact i3 c' r hm
    | ret _ => simp [Replay] at h
    | raise _ => simp [Replay] at h
    | reraise _ => simp [Replay] at h
    | read _ _ _ => simp [Replay] at h

end MxModel.Exec
