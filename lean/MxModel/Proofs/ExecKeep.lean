import MxModel.Proofs.ExecBasic
/-! An evaluation only ever adds to the cache: no held element loses its value, and the set
of user inputs is untouched. -/
namespace MxModel.Exec

def Keeps (s s' : St) : Prop :=
  (∀ m, (lookup s.data m).isSome → (lookup s'.data m).isSome) ∧ s'.inputs = s.inputs

theorem Keeps.refl (s : St) : Keeps s s := ⟨fun _ h => h, rfl⟩
theorem Keeps.trans {a b c : St} (h1 : Keeps a b) (h2 : Keeps b c) : Keeps a c :=
  ⟨fun m h => h2.1 m (h1.1 m h), h2.2.trans h1.2⟩
theorem Keeps.of_sameCache {a b : St} (h : SameCache a b) : Keeps a b :=
  ⟨fun m hm => by rw [h.data]; exact hm, h.inputs⟩

theorem keeps_store (s : St) (n : Node) (v : Val) : Keeps s { s with data := insert s.data n v } := by
  refine ⟨fun m hm => ?_, rfl⟩
  simp only [lookup_insert]
  split
  · rfl
  · exact hm

def CalleeKeeps (f : Node → St → Res × St) : Prop := ∀ n s, Keeps s (f n s).2

theorem runBody_keeps (env : Env) (f : Node → St → Res × St) (hf : CalleeKeeps f) :
    ∀ (p : Prog) (s : St), Keeps s (runBody env f p s).2 := by
  intro p
  induction p with
  | ret v => intro s; exact Keeps.refl s
  | raise e => intro s; exact Keeps.of_sameCache (sameCache_newExc s)
  | reraise e => intro s; exact Keeps.refl s
  | read a x k ih =>
    intro s; simp only [runBody]
    exact (Keeps.of_sameCache (sameCache_noteRead s _ x)).trans (ih _ _)
  | call n k ih =>
    intro s; simp only [runBody]
    exact (hf n s).trans (ih _ _)

theorem evalNode_keeps (env : Env) (ef : Node → St → Res × St) (hef : CalleeKeeps ef) :
    CalleeKeeps (evalNode env ef) := by
  intro n s
  unfold evalNode
  split
  · split
    · split
      · exact Keeps.of_sameCache (sameCache_hitEdge s n)
      · exact (hef n s).trans (Keeps.of_sameCache (keepExc_excOnly s _).sameCache)
    · exact (hef n s).trans (Keeps.of_sameCache (keepExc_excOnly s _).sameCache)
  · exact Keeps.of_sameCache (sameCache_newExc s)

theorem runN_keeps (env : Env) : ∀ d, CalleeKeeps (runN env d) := by
  intro d
  induction d with
  | zero => intro n s; exact ⟨fun _ h => h, rfl⟩
  | succ d ih =>
    intro n s
    have hb := (Keeps.of_sameCache (sameCache_push env s n)).trans
      (runBody_keeps env _ (evalNode_keeps env _ ih) (env.formula n) (s.push env n))
    simp only [runN]
    generalize runBody env (evalNode env (runN env d)) (env.formula n) (s.push env n) = p at hb
    obtain ⟨r, s1⟩ := p
    simp only [] at hb ⊢
    cases r with
    | err e => exact hb.trans (Keeps.of_sameCache (sameCache_rollback s1 n))
    | ok v =>
      simp only []
      split
      · split
        · exact hb.trans (Keeps.of_sameCache ((sameCache_newExc s1).trans (sameCache_rollback _ n)))
        · exact (hb.trans (keeps_store s1 n v)).trans (Keeps.of_sameCache (sameCache_pop env _ n))
      · exact hb.trans (Keeps.of_sameCache (sameCache_pop env s1 n))

theorem evalTop_keeps (env : Env) (n : Node) (s : St) : Keeps s (evalTop env n s).2 := by
  unfold evalTop
  split
  · exact Keeps.refl s
  · have := runN_keeps env (env.maxdepth + 1) n s
    generalize runN env (env.maxdepth + 1) n s = p at this
    obtain ⟨r, s1⟩ := p
    cases r <;> exact this

end MxModel.Exec
