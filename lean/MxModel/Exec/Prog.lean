/-!
# Exec: values, formula behaviours, environment, and the specification `Den`

A formula is modelled by what it *does* to modelx (`Prog`), not by Python syntax: it
returns, raises, calls an element of a cells (and may catch the callee's failure – the
continuation receives a `Res`), or reads a reference (by name, or through an attribute
path, which the executor records).  Continuations are arbitrary Lean functions, so a
theorem quantified over `Env` covers every deterministic formula behaviour.
-/
namespace MxModel.Exec

abbrev CellId := Nat
abbrev RefId := Nat

inductive Val
  | int (i : Int)
  | none
deriving DecidableEq, Repr, Inhabited

abbrev Key := List Val
abbrev Node := CellId × Key

/-- exceptions as the formulas and the executor see them -/
inductive Err
  | user (k : Nat)   -- raised by formula code: ValueError, KeyError, ZeroDivisionError, TypeError, …
  | deep             -- `DeepReferenceError` from `CallStack.append`
  | noneRet          -- `NoneReturnedError` from `CellsImpl._store_value`
deriving DecidableEq, Repr, Inhabited

inductive Res
  | ok (v : Val)
  | err (e : Err)
deriving DecidableEq, Repr, Inhabited

inductive Prog where
  | ret   : Val → Prog
  | raise : Err → Prog
  /-- the exception received from the most recent failed call keeps propagating (the
  formula does not handle it); `raise` creates a new exception object instead -/
  | reraise : Err → Prog
  /-- call element `n`; the continuation sees the value or the (catchable) failure -/
  | call  : Node → (Res → Prog) → Prog
  /-- read reference `r`; `byAttr` = through an attribute path (`Space.get_attr`, recorded on
  the executor's `refstack`), otherwise by global name (not recorded).  The continuation
  receives `none` when no reference of that name exists (`NameError` / `AttributeError`,
  which the formula may catch) -/
  | read  : (byAttr : Bool) → RefId → (Option Val → Prog) → Prog

structure Env where
  /-- formula of a cells with its parameters bound to the key -/
  formula   : Node → Prog
  cached    : CellId → Bool
  /-- `allow_none` resolved cells → space → model -/
  allowNone : CellId → Bool
  /-- current value of each reference; `none` = no such reference (deleted / not yet created) -/
  refs      : RefId → Option Val
  /-- `CallStack.maxdepth` -/
  maxdepth  : Nat
  /-- the cells whose space's namespace contains the reference (the cells that can read it by
  global name): those `BaseNamespaceReferrer`s are notified when the reference changes -/
  observers : RefId → List CellId := fun _ => []
  /-- does the cells exist now?  A cells that was deleted, or is not created yet, is not alive:
  its name is in no namespace (a call from a formula fails in the CALLER: `NameError` for a global
  name, `AttributeError` for an attribute path - no frame is pushed, nothing is recorded) -/
  alive : CellId → Bool := fun _ => true
  /-- the cells of the space of cells `c`, `c` included: the `BaseNamespaceReferrer`s notified when
  `c` is created in / deleted from the cells container of its space -/
  siblings : CellId → List CellId := fun _ => []

/-- what the caller of a cells that does not exist gets: `NameError` (kind 4 of `Err.user`; a
formula spelling the call through an attribute path turns it into `AttributeError` itself) -/
def errDead : Err := .user 4

/-- the answer a formula gets when it calls `n`: the callee's result, or the error of a name
that is not bound when the cells does not exist -/
def calleeAt (env : Env) (callee : Node → Res × Bool) (n : Node) : Res × Bool :=
  if env.alive n.1 then callee n else (.err errDead, false)

/-- `Impl.get_property("allow_none")` (modelx/core/base.py): the nearest setting that is not
`None`, looked up cells → space → model; the model always has one (`ModelImpl.__init__` sets
`False`, the setter of the interface stores `None` or a `bool`). -/
def resolveAllowNone (cell space : Option Bool) (model : Bool) : Bool :=
  match cell with
  | some b => b
  | none => match space with
    | some b => b
    | none => model

/-! ## Specification: uncached evaluation of the formulas as pure functions

The Boolean is a sticky "the depth bound was hit somewhere, even if a formula caught it"
flag.  Results are monotone in the depth only for evaluations that never hit the bound. -/

/-- `NoneReturnedError` check of `_store_value` (applies to cached cells only: an uncached
cells returns `None` unchecked, see `CellsImpl.on_eval_formula`). -/
def checkNone (env : Env) (c : CellId) (r : Res) : Res :=
  match r with
  | .ok .none => if env.cached c && !env.allowNone c then .err .noneRet else .ok .none
  | r => r

def denoteBody (env : Env) (callee : Node → Res × Bool) : Prog → Res × Bool
  | .ret v => (.ok v, false)
  | .raise e => (.err e, false)
  | .reraise e => (.err e, false)
  | .read _ r k => denoteBody env callee (k (env.refs r))
  | .call n k =>
    ((denoteBody env callee (k (calleeAt env callee n).1)).1,
     (calleeAt env callee n).2 || (denoteBody env callee (k (calleeAt env callee n).1)).2)

/-- `inputs` are the values assigned by the user: they are what a (cached) cells returns for
those arguments whatever the formula; an uncached cells never consults its data. -/
def denoteN (env : Env) (inputs : Node → Option Val) : Nat → Node → Res × Bool
  | 0, _ => (.err .deep, true)
  | d + 1, n =>
    match (if env.cached n.1 then inputs n else none) with
    | some v => (.ok v, false)
    | none =>
      (checkNone env n.1 (denoteBody env (denoteN env inputs d) (env.formula n)).1,
       (denoteBody env (denoteN env inputs d) (env.formula n)).2)

/-- the value of element `n` under the current definitions -/
def Den (env : Env) (inputs : Node → Option Val) (n : Node) (r : Res) : Prop :=
  ∃ d, denoteN env inputs d n = (r, false)

end MxModel.Exec
