import MxModel.Exec.Prog
/-!
# Resolution: source-level behaviours whose global names are looked up in a namespace

The formulas of `Exec` (`Prog`) call cells and read references by *identity*.  A formula's source
uses *names*, and what a name means is decided by the namespace of the space the cells lives in –
its own cells, its own and derived references, model-level references – at the time the formula
runs (`LOAD_GLOBAL` in the globals dictionary modelx builds from `space.namespace`).  `SProg` adds
that lookup to `Prog`: `name x k` asks the namespace what `x` is bound to – a cells, a reference,
nothing – and continues accordingly (call it, read it, raise `NameError`, handle the `NameError`,
…: whatever the source does).  Attribute paths (`Ch.c`, `_space.parent.r`) go through
`Space.get_attr` of ANOTHER space and carry the identity of what they reach (`call`, `read`, as in
`Prog`; a missing target is `Env.alive = false` / `Env.refs = none`): the namespace that decides
about them is not the one whose change notifies this formula's cells.

`resolve ns p` is the `Prog` the source behaviour `p` is in namespace `ns`; it depends only on
what `ns` says about the names `p` mentions (`resolve_congr`, `Proofs/ExecResolve.lean`).
-/
namespace MxModel.Exec

/-- what a global name is bound to in a namespace -/
inductive Binding
  | cell (c : CellId)
  | ref (r : RefId)
deriving DecidableEq, Repr

/-- the namespace of a space: global name ↦ binding (`none`: `NameError`) -/
abbrev Ns := String → Option Binding

inductive SProg where
  | ret : Val → SProg
  | raise : Err → SProg
  | reraise : Err → SProg
  | call : Node → (Res → SProg) → SProg
  | read : (byAttr : Bool) → RefId → (Option Val → SProg) → SProg
  /-- look the global name up in the namespace of the formula's own space -/
  | name : String → (Option Binding → SProg) → SProg

def resolve (ns : Ns) : SProg → Prog
  | .ret v => .ret v
  | .raise e => .raise e
  | .reraise e => .reraise e
  | .call n k => .call n (fun r => resolve ns (k r))
  | .read a r k => .read a r (fun o => resolve ns (k o))
  | .name x k => resolve ns (k (ns x))

/-- the global names a behaviour can look up, on any path -/
def Mentions : SProg → String → Prop
  | .ret _, _ => False
  | .raise _, _ => False
  | .reraise _, _ => False
  | .call _ k, x => ∃ r, Mentions (k r) x
  | .read _ _ k, x => ∃ o, Mentions (k o) x
  | .name y k, x => x = y ∨ ∃ b, Mentions (k b) x

/-- `x(key)` as Python executes it: load the global `x` (`NameError` when unbound: `onNone`), call
it when it is a cells; a reference is loaded (by global name) and "called" (`onRef`, typically a
`TypeError`) -/
def SProg.callN (x : String) (key : Key) (k : Res → SProg) (onRef : Option Val → SProg) (onNone : SProg) : SProg :=
  .name x (fun b => match b with
    | some (.cell c) => .call (c, key) k
    | some (.ref r) => .read false r onRef
    | none => onNone)

/-- the value of the global `x`: a reference is read; a cells object is no value of the model
(`onCell`); unbound: `onNone` -/
def SProg.readN (x : String) (k : Option Val → SProg) (onCell : SProg) (onNone : SProg) : SProg :=
  .name x (fun b => match b with
    | some (.ref r) => .read false r k
    | some (.cell _) => onCell
    | none => onNone)

/-- definitions at source level: every cells has a source behaviour, a home space and a name; every
space has a namespace -/
structure SEnv where
  src : Node → SProg
  home : CellId → Nat
  nss : Nat → Ns
  cellName : CellId → String
  /-- the declared cells ids -/
  cells : List CellId
  cached : CellId → Bool
  allowNone : CellId → Bool
  refs : RefId → Option Val
  maxdepth : Nat
  observers : RefId → List CellId := fun _ => []

/-- the definitions the executor sees: formulas resolved in the namespace of the cells' home; a
cells exists when its name is bound to it in its home; the cells of its space are the declared
cells with the same home -/
def SEnv.toEnv (se : SEnv) : Env where
  formula := fun n => resolve (se.nss (se.home n.1)) (se.src n)
  cached := se.cached
  allowNone := se.allowNone
  refs := se.refs
  maxdepth := se.maxdepth
  observers := se.observers
  alive := fun c => se.nss (se.home c) (se.cellName c) == some (.cell c)
  siblings := fun c => se.cells.filter (fun c' => se.home c' == se.home c)

def SEnv.withNss (se : SEnv) (nss' : Nat → Ns) : SEnv := { se with nss := nss' }

end MxModel.Exec
