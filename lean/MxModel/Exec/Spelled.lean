import MxModel.Exec.Mech
import MxModel.Exec.Expr
/-!
# A top-level request with spelled arguments

`cells(*args, **kwargs)`, `cells[args]`, `cells.value` from outside any formula: `get_node` binds the
arguments against the signature (`node._bind_args`: `bindKey`) – a spelling that does not bind raises
`TypeError` before the executor is reached – and the element that is evaluated is the bound key.
This is the `eval` operation of the driver.
-/
namespace MxModel.Exec

inductive SpelledRes
  /-- the spelling does not bind: `TypeError` from `get_node`, nothing was evaluated -/
  | typeError
  | res (r : TopRes)
deriving DecidableEq, Repr

/-- `c(pos…, kw…)` for a cells with `a` parameters, the last `dflt.length` of them with defaults -/
def evalSpelled (env : Env) (c : CellId) (a : Nat) (dflt pos : List Val) (kw : List (Nat × Val)) (s : St) :
    SpelledRes × St :=
  match bindKey a dflt pos kw with
  | none => (.typeError, s)
  | some key => (.res (evalTop env (c, key) s).1, (evalTop env (c, key) s).2)

end MxModel.Exec
