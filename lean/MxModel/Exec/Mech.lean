import MxModel.Exec.Prog
/-!
# Exec: the mechanism – executor, call stack, cache, trace graph, reference graph

Mirrors, field by field and in the same order of effects, `NonThreadedExecutor`
(`eval_node`, `_eval_formula`, `_start_exec`), `CallStack` (`append`, `pop`, `rollback`),
`CellsImpl` (`on_eval_formula`, `_store_value`, `set_value_from_key`, `clear_value_at`,
`clear_all_values`, `on_clear_trace`) and `TraceManager` (`clear_with_descs`, `clear_obj`,
`clear_attr_referrers`) with `TraceGraph`/`ReferenceGraph` of `modelx/core/model.py`.
-/
namespace MxModel.Exec

/-- node of `ModelImpl.tracegraph`: an element `(cells, key)` or the object node `(cells,)`
that stands for an uncached cells -/
inductive GNode
  | elem (n : Node)
  | obj (c : CellId)
deriving DecidableEq, Repr

/-- the cells a graph node belongs to -/
def GNode.cell : GNode → CellId
  | .elem n => n.1
  | .obj c => c

structure St where
  /-- `CellsImpl.data` of all cells, flattened; newest binding first -/
  data : List (Node × Val) := []
  /-- `CellsImpl.input_keys`, flattened -/
  inputs : List Node := []
  /-- trace graph: nodes and edges `(callee, caller)` -/
  gn : List GNode := []
  ge : List (GNode × GNode) := []
  /-- reference graph: edges `(reference, element that read it through an attribute path)` -/
  rg : List (RefId × Node) := []
  /-- `CallStack` (bottom first) and its `idxstack` -/
  stack : List Node := []
  idx : List Int := []
  /-- `System.refstack`: `(counter - 1, reference)`, bottom first -/
  refstack : List (Nat × RefId) := []
  /-- `NonThreadedExecutor.rolledback` (oldest first): the node and the identity of the
  exception that was propagating when it was rolled back -/
  rolledback : List (Node × Nat) := []
  /-- identity of the exception that is propagating - or, when none is, of the one the running
  formula received last from a callee (`sys.exc_info()[1]` as `CallStack.rollback` reads it) -/
  curExc : Nat := 0
  /-- number of exception objects created so far (the next one gets identity `excCount + 1`) -/
  excCount : Nat := 0
  /-- ghost: the call stack at the moment the exception object `curExc` was created -/
  excStack : List Node := []
  /-- `executor.excinfo` / `executor.errorstack` as `get_error()` / `get_traceback()` see them -/
  lastErr : Option Err := none
  lastTb : List Node := []
  /-- ghost: formula executions, newest first -/
  log : List Node := []
  /-- ghost, sticky: the depth limit was hit -/
  hit : Bool := false
deriving Repr

/-! ### association list and graph primitives -/

def lookup (d : List (Node × Val)) (n : Node) : Option Val :=
  match d with
  | [] => none
  | (m, v) :: rest => if m = n then some v else lookup rest n

/-- `self.data[key] = value` -/
def insert (d : List (Node × Val)) (n : Node) (v : Val) : List (Node × Val) :=
  (n, v) :: d.filter (fun e => e.1 != n)

def erase (d : List (Node × Val)) (n : Node) : List (Node × Val) :=
  d.filter (fun e => e.1 != n)

def St.addNode (s : St) (a : GNode) : St :=
  if s.gn.contains a then s else { s with gn := s.gn ++ [a] }

/-- `nx.DiGraph.add_edge` -/
def St.addEdge (s : St) (a b : GNode) : St :=
  let s1 := (s.addNode a).addNode b
  if s1.ge.contains (a, b) then s1 else { s1 with ge := s1.ge ++ [(a, b)] }

/-- `nx.DiGraph.remove_node` (no-op when absent) -/
def St.removeNode (s : St) (a : GNode) : St :=
  { s with gn := s.gn.filter (· != a), ge := s.ge.filter (fun e => e.1 != a && e.2 != a) }

def St.removeNodes (s : St) (as : List GNode) : St :=
  { s with gn := s.gn.filter (fun x => !as.contains x),
           ge := s.ge.filter (fun e => !as.contains e.1 && !as.contains e.2) }

def succsOf (ge : List (GNode × GNode)) (a : GNode) : List GNode :=
  (ge.filter (fun e => e.1 == a)).map (·.2)

def predsOf (ge : List (GNode × GNode)) (a : GNode) : List GNode :=
  (ge.filter (fun e => e.2 == a)).map (·.1)

/-- frontier expansion; fuel = number of nodes is enough (`Proofs/Graph`) -/
def reachFrom (ge : List (GNode × GNode)) : Nat → List GNode → List GNode → List GNode
  | 0, _, seen => seen
  | fuel + 1, frontier, seen =>
    let next := (frontier.flatMap (succsOf ge)).eraseDups.filter (fun x => !seen.contains x)
    if next.isEmpty then seen else reachFrom ge fuel next (seen ++ next)

/-- `nx.descendants(g, a) ∪ {a}` -/
def St.descsWith (s : St) (a : GNode) : List GNode :=
  reachFrom s.ge s.gn.length [a] [a]

/-! ### `CallStack` -/

/-- the caller that edges are attached to: `self[idxstack[-1]]` when that index is ≥ 0 -/
def St.edgeTarget (s : St) : Option Node :=
  match s.idx.getLast? with
  | some i => if i ≥ 0 then s.stack[i.toNat]? else none
  | none => none

/-- `CallStack.append` after the depth check (the check is the `0` case of `runN`) -/
def St.push (env : Env) (s : St) (n : Node) : St :=
  let len : Int := s.stack.length
  let i : Int :=
    if env.cached n.1 then len
    else match s.idx.getLast? with
      | some j => j
      | none => -1
  { s with stack := s.stack ++ [n], idx := s.idx ++ [i], log := n :: s.log }

/-- entries of `refstack` belonging to the frame at `level`, taken from the top -/
def takeRefs (rs : List (Nat × RefId)) (level : Nat) : List RefId × List (Nat × RefId) :=
  let top := rs.reverse.takeWhile (fun e => e.1 == level)
  (top.map (·.2), rs.take (rs.length - top.length))

/-- drop the top frame of `CallStack` and `idxstack` -/
def St.dropFrame (s : St) : St := { s with stack := s.stack.dropLast, idx := s.idx.dropLast }

/-- graph part of `CallStack.pop`: edge from the finished node (or from the object node of
an uncached cells) to the nearest cached caller; an isolated node otherwise -/
def St.popEdge (env : Env) (s : St) (n : Node) : St :=
  match s.edgeTarget with
  | some t => s.addEdge (if env.cached n.1 then .elem n else .obj n.1) (.elem t)
  | none => if env.cached n.1 then s.addNode (.elem n) else s

/-- reference part of `CallStack.pop`: the reads made by the frame of a cached cells become
edges of the reference graph; those of an uncached cells are handed over to the caller's
frame (so that they end up with the nearest cached caller), or dropped when there is none -/
def St.drainRefs (env : Env) (s : St) (n : Node) : St :=
  if env.cached n.1 then
    { s with refstack := (takeRefs s.refstack s.stack.length).2,
             rg := s.rg ++ (((takeRefs s.refstack s.stack.length).1.map (fun r => (r, n))).eraseDups).filter
                    (fun e => !s.rg.contains e) }
  else if s.stack.length > 0 then
    { s with refstack := (takeRefs s.refstack s.stack.length).2 ++
        ((takeRefs s.refstack s.stack.length).1.reverse.map (fun r => (s.stack.length - 1, r))) }
  else
    { s with refstack := (takeRefs s.refstack s.stack.length).2 }

/-- `CallStack.pop` -/
def St.pop (env : Env) (s : St) (n : Node) : St :=
  ((s.dropFrame).popEdge env n).drainRefs env n

/-- `CallStack.rollback` -/
def St.rollback (s : St) (n : Node) : St :=
  let s2 := ({ s.dropFrame with rolledback := s.rolledback ++ [(n, s.curExc)] }).removeNode (.elem n)
  { s2 with refstack := (takeRefs s2.refstack s2.stack.length).2 }

/-- cache hit in `eval_node`: edge to the nearest cached caller -/
def St.hitEdge (s : St) (n : Node) : St :=
  match s.edgeTarget with
  | some t => s.addEdge (.elem n) (.elem t)
  | none => s

/-- `Space.get_attr` on a reference while a formula runs -/
def St.noteRead (s : St) (byAttr : Bool) (r : RefId) : St :=
  if byAttr && s.stack.length > 0 then
    { s with refstack := s.refstack ++ [(s.stack.length - 1, r)] }
  else s

/-- a new exception object is raised -/
def St.newExc (s : St) : St :=
  { s with excCount := s.excCount + 1, curExc := s.excCount + 1, excStack := s.stack }

/-- A call that returns normally leaves the caller's exception as it was: exceptions that were
raised and handled inside the callee are gone with its frames, so if the caller is in an
`except … : … raise` or a `finally:` block, the exception that propagates after the call is the
one it was handling before it - not the last one the callee saw. -/
def keepExc (s : St) (p : Res × St) : Res × St :=
  match p.1 with
  | .ok _ => (p.1, { p.2 with curExc := s.curExc, excStack := s.excStack })
  | .err _ => p

/-! ### the evaluator -/

def runBody (env : Env) (ev : Node → St → Res × St) : Prog → St → Res × St
  | .ret v, s => (.ok v, s)
  | .raise e, s => (.err e, s.newExc)
  -- the exception `s.curExc` propagates (again): the one just received from a failed call, or -
  -- at the end of an `except … : … raise` / `finally:` block whose calls all returned - the one
  -- that was being handled
  | .reraise e, s => (.err e, s)
  | .read a r k, s =>
    -- `get_attr` fails (`KeyError` → `AttributeError`) before anything is recorded when no
    -- reference of that name exists
    runBody env ev (k (env.refs r)) (s.noteRead (a && (env.refs r).isSome) r)
  | .call n k, s =>
    let p := ev n s
    runBody env ev (k p.1) p.2

/-- a formula calls element `n`: `eval_node` with `_eval_formula` supplied as `ef` - when the
cells exists.  When it does not (deleted, not created yet) its name is bound in no namespace: the
CALLER's code raises (`NameError`; `AttributeError` for an attribute path) before anything
reaches the executor - no frame, no graph node, a new exception object in the caller's frame. -/
def evalNode (env : Env) (ef : Node → St → Res × St) (n : Node) (s : St) : Res × St :=
  if env.alive n.1 then
    if env.cached n.1 then
      match lookup s.data n with
      | some v => (.ok v, s.hitEdge n)
      | none => keepExc s (ef n s)
    else keepExc s (ef n s)
  else (.err errDead, s.newExc)

/-- `_eval_formula` with `d` = how many more frames `CallStack.append` accepts -/
def runN (env : Env) : Nat → Node → St → Res × St
  | 0, _, s => (.err .deep, { s with hit := true }.newExc)
  | d + 1, n, s =>
    let p := runBody env (evalNode env (runN env d)) (env.formula n) (s.push env n)
    match p.1 with
    | .err e => (.err e, p.2.rollback n)
    | .ok v =>
      if env.cached n.1 then
        if v = .none && !env.allowNone n.1 then (.err .noneRet, p.2.newExc.rollback n)
        else (.ok v, ({ p.2 with data := insert p.2.data n v }).pop env n)
      else (.ok v, p.2.pop env n)

/-- what a top-level call returns: the value, or `FormulaError` carrying the original -/
inductive TopRes
  | ok (v : Val)
  | formulaError (orig : Err) (traceback : List Node)
deriving DecidableEq, Repr

/-- `eval_node` from outside any formula: `_start_exec` on a miss -/
def evalTop (env : Env) (n : Node) (s : St) : TopRes × St :=
  match (if env.cached n.1 then lookup s.data n else none) with
  | some v => (.ok v, s)
  | none =>
    let p := runN env (env.maxdepth + 1) n s
    match p.1 with
    | .ok v => (.ok v, { p.2 with rolledback := [], lastErr := none, lastTb := [] })
    | .err e =>
      -- `ErrorStack(excinfo, _pop_rolledback(exc))`: the nodes rolled back by the escaping
      -- exception, outermost first; entries of exceptions that formulas handled are dropped
      let chain := ((p.2.rolledback.filter (fun x => x.2 == p.2.curExc)).map (·.1)).reverse
      (.formulaError e chain, { p.2 with rolledback := [], lastErr := some e, lastTb := chain })

/-! ### value edits (`CellsImpl` / `TraceManager`) -/

def elemsOf (g : List GNode) : List Node :=
  g.filterMap (fun x => match x with | .elem n => some n | .obj _ => none)

/-- `ReferenceGraph.remove_with_referred(nodes)` -/
def St.rgRemoveReferred (s : St) (ns : List Node) : St :=
  { s with rg := s.rg.filter (fun e => !ns.contains e.2) }

/-- `on_clear_trace` for every removed element -/
def St.dropValues (s : St) (ns : List Node) : St :=
  { s with data := s.data.filter (fun e => !ns.contains e.1),
           inputs := s.inputs.filter (fun n => !ns.contains n) }

/-- `TraceManager.clear_with_descs(node)` -/
def St.clearWithDescs (s : St) (n : Node) : St :=
  if s.gn.contains (.elem n) then
    let removed := s.descsWith (.elem n)
    ((s.removeNodes removed).rgRemoveReferred (elemsOf removed)).dropValues (elemsOf removed)
  else s

/-- `CellsImpl.clear_value_at(key, clear_input)` -/
def St.clearValueAt (s : St) (n : Node) (clearInput : Bool) : St :=
  if (lookup s.data n).isSome then
    if clearInput || !s.inputs.contains n then s.clearWithDescs n else s
  else s

/-- `CellsImpl.clear_all_values(clear_input)`: iterate over a snapshot of the keys -/
def St.clearAllValues (s : St) (c : CellId) (clearInput : Bool) : St :=
  ((s.data.filter (fun e => e.1.1 == c)).map (·.1)).foldl (fun s n => s.clearValueAt n clearInput) s

/-- `TraceManager.clear_obj(obj)`: all nodes of a cells (element nodes and the object node)
with their descendants -/
def St.clearObj (s : St) (c : CellId) : St :=
  let own := s.gn.filter (fun x => match x with | .elem n => n.1 == c | .obj c' => c' == c)
  let removed := (own.flatMap (fun a => s.descsWith a)).eraseDups
  ((s.removeNodes removed).rgRemoveReferred (elemsOf removed)).dropValues (elemsOf removed)

/-- `TraceManager.clear_attr_referrers(ref)`: the readers of `r` leave the reference graph
(`remove_with_descs(ref)`); each of them that still has a node is removed from the trace graph
with its dependents, and - since the repair 87e96f6 - the edges that OTHER references have to
those dependents leave the reference graph with them (`remove_with_referred(descs)`), before
the values are dropped.  (Per reader this is what `clearWithDescs` does.) -/
def St.clearAttrReferrers (s : St) (r : RefId) : St :=
  let readers := (s.rg.filter (fun e => e.1 == r)).map (·.2)
  let s1 := { s with rg := s.rg.filter (fun e => e.1 != r && !readers.contains e.2) }
  readers.foldl (fun s n =>
    if s.gn.contains (.elem n) then
      let removed := s.descsWith (.elem n)
      ((s.removeNodes removed).rgRemoveReferred (elemsOf removed)).dropValues (elemsOf removed)
    else s) s1

/-! ### definition edits: references and formulas

`env` supplies the flags and `observers` (static facts about the spaces); the edit of the
environment itself (the new value of the reference, the new formula) is made by the caller.
Each function is the clearing the code performs for the edit, in the code's order. -/

/-- `CellsImpl.on_namespace_change`: a cached cells drops its calculated values (with their
dependents), an uncached cells everything computed through it -/
def St.onNamespaceChange (env : Env) (s : St) (c : CellId) : St :=
  if env.cached c then s.clearAllValues c false else s.clearObj c

/-- a namespace notifies the cells `L` observing it, one after the other -/
def St.notifyAll (env : Env) (s : St) (L : List CellId) : St :=
  L.foldl (fun s c => s.onNamespaceChange env c) s

/-- `own_refs.set_item` / `del_item` → `LazyEval.notify` → … → every `BaseNamespaceReferrer`
observing the namespace of a space that contains the reference -/
def St.notifyObservers (env : Env) (s : St) (r : RefId) : St :=
  (env.observers r).foldl (fun s c => s.onNamespaceChange env c) s

/-- `BaseSpaceImpl.on_del_ref`: `own_refs.del_item(name)` (notification), then
`clear_attr_referrers(ref)` -/
def St.delRef (env : Env) (s : St) (r : RefId) : St :=
  (s.notifyObservers env r).clearAttrReferrers r

/-- `BaseSpaceImpl.on_create_ref` of a name that no model-level reference has: `set_item`
(notification) only -/
def St.newRef (env : Env) (s : St) (r : RefId) : St :=
  s.notifyObservers env r

/-- `BaseSpaceImpl.on_change_ref`: `on_del_ref`, `on_create_ref`, `clear_attr_referrers(ref)` -/
def St.changeRef (env : Env) (s : St) (r : RefId) : St :=
  ((s.delRef env r).newRef env r).clearAttrReferrers r

/-- `space.name = value` (`set_attr`): `change_ref` when the reference exists, `new_ref` otherwise
(`env` = the environment BEFORE the edit: the clearing runs first, then the binding changes) -/
def St.setRef (env : Env) (s : St) (r : RefId) : St :=
  if (env.refs r).isSome then s.changeRef env r else s.newRef env r

/-- `UserCellsImpl.on_set_property` (formula and/or cache flag): `clear_obj(cells)` -/
def St.setFormula (s : St) (c : CellId) : St := s.clearObj c

/-! ### structural edits: a cells is deleted / created

`env` = the definitions BEFORE the edit (flags and `siblings` of the cells that exist). -/

/-- the cells container of the space of `c` changed (`cells.del_item` / `set_item` → `notify` →
the space's namespace → every cells observing it): `on_namespace_change` of every cells of the
space -/
def St.notifySiblings (env : Env) (s : St) (c : CellId) : St :=
  s.notifyAll env (env.siblings c)

/-- `UserSpaceImpl.on_del_cells` (from `SpaceManager.del_cells`): `model.clear_obj(cells)`, then
`cells.del_item(name)` (the notification; the deleted cells is still among the observers and holds
nothing any more), then `cells.on_delete()` (the interface goes dead: no state of the value layer) -/
def St.delCell (env : Env) (s : St) (c : CellId) : St :=
  (s.clearObj c).notifySiblings env c

/-- `SpaceManager.new_cells`: `UserCellsImpl.__init__` puts the cells into the container of its
space (`set_item` → notification); the new cells holds nothing -/
def St.newCell (env : Env) (s : St) (c : CellId) : St :=
  s.notifySiblings env c

inductive EditErr | noneNotAllowed
deriving DecidableEq, Repr

/-- `CellsImpl.set_value_from_key` from outside any formula, recalculation option off.
`None` where it is not allowed is rejected before anything is cleared. -/
def St.setValue (env : Env) (s : St) (n : Node) (v : Val) : St × Option EditErr :=
  if v = .none && !env.allowNone n.1 then (s, some .noneNotAllowed)
  else
    let s1 := s.clearValueAt n true
    let s2 := { s1 with data := insert s1.data n v }
    let s3 := s2.addNode (.elem n)
    ({ s3 with inputs := if s3.inputs.contains n then s3.inputs else s3.inputs ++ [n] }, none)

/-! ### administrative calls

`mx.start_stacktrace` / `stop_stacktrace` (the call stack object is replaced by one of the other
class **with the same `maxdepth`**), `get_stacktrace`, `clear_stacktrace`, `trace_stack`,
`get_recursion`, `get_error`, `get_traceback`, and `set_recursion` to the value the limit already
has: none of them touches the execution state, the cache, the graphs or the recursion limit.
(`set_recursion(k)` proper changes `Env.maxdepth` and nothing else - in particular it clears
nothing.) -/

inductive Admin
  | startTrace | stopTrace | getTrace | clearTrace | traceStack
  | getRecursion | getError | getTraceback | setRecursionSame
deriving DecidableEq, Repr

def St.admin (s : St) (_ : Admin) : St := s

/-- the only state of the stack-trace facility that is visible through results: whether a trace
session is active (`get_stacktrace` / `clear_stacktrace` raise `RuntimeError` when it is not) -/
def Admin.tracing (active : Bool) : Admin → Bool
  | .startTrace => true
  | .stopTrace => false
  | .traceStack => false
  | _ => active

def Admin.refused (active : Bool) : Admin → Bool
  | .getTrace => !active
  | .clearTrace => !active
  | _ => false

/-- leaves of the descendants of `n` (`TraceGraph.get_startnodes_from`) -/
def St.startNodesFrom (s : St) (n : Node) : List Node :=
  if s.gn.contains (.elem n) then
    elemsOf (((s.descsWith (.elem n)).filter (· != .elem n)).filter
      (fun x => (succsOf s.ge x).isEmpty))
  else []

/-! ### value assignment with the recalculation option on (`System._recalc_dependents = True`)

`set_value_from_key`: `targets = tracegraph.get_startnodes_from(node)` – the leaves among the
dependents, taken BEFORE anything is cleared –, then the assignment as with the option off
(`clear_value_at`, `_store_value`, `add_node`, `input_keys.add`), then
`for trg in targets: trg[OBJ].get_value_from_key(trg[KEY])`: one top-level evaluation per former
leaf dependent, one after the other.  A recomputation that fails raises `FormulaError` out of the
loop, hence out of the assignment: the value stays assigned, the targets evaluated before stay
recomputed, the remaining targets are not evaluated.  (Python iterates over a `set` of nodes: the
order of the targets is not determined by the program; the model takes the order of
`startNodesFrom`.  When no recomputation fails the order is irrelevant for values and graphs.) -/

inductive RecalcRes
  | ok
  /-- `None` where it is not allowed: refused before anything is changed -/
  | refused (e : EditErr)
  /-- the recomputation of the former leaf dependent `t` failed: `FormulaError` out of the assignment -/
  | failed (t : Node) (e : Err) (tb : List Node)
deriving DecidableEq, Repr

/-- `for trg in targets: trg[OBJ].get_value_from_key(trg[KEY])` -/
def St.recalcTargets (env : Env) : List Node → St → RecalcRes × St
  | [], s => (.ok, s)
  | t :: ts, s =>
    match (evalTop env t s).1 with
    | .ok _ => St.recalcTargets env ts (evalTop env t s).2
    | .formulaError e tb => (.failed t e tb, (evalTop env t s).2)

/-- `CellsImpl.set_value_from_key` from outside any formula, recalculation option on -/
def St.setValueRecalc (env : Env) (s : St) (n : Node) (v : Val) : St × RecalcRes :=
  match (s.setValue env n v).2 with
  | some e => ((s.setValue env n v).1, .refused e)
  | none =>
    ((St.recalcTargets env (s.startNodesFrom n) (s.setValue env n v).1).2,
     (St.recalcTargets env (s.startNodesFrom n) (s.setValue env n v).1).1)

end MxModel.Exec
