import MxModel.Exec.Prog
/-!
# A concrete first-order formula grammar and its compilation to behaviours

Used by the driver and the correspondence harness (which renders the same `Expr` to Python
source).  The theorems do not depend on it: they quantify over all `Prog`.
Compilation is double-barrelled CPS: `k` continues with a value, `h` with a raised error
(flag: a new exception object, or the callee's exception propagating), so that
`try … except` catches exactly what is raised inside its body.
-/
namespace MxModel.Exec

/-- kinds of `Err.user`: what formula code itself can raise -/
def kValue : Nat := 0       -- ValueError
def kKey : Nat := 1         -- KeyError
def kZeroDiv : Nat := 2     -- ZeroDivisionError
def kType : Nat := 3        -- TypeError (arithmetic or comparison with None, bad arity)
def kName : Nat := 4        -- NameError
def kAttr : Nat := 5        -- AttributeError
def kBase : Nat := 6        -- KeyboardInterrupt: a BaseException that `except Exception` lets through

inductive Catch
  | all                 -- `except Exception`
  | user (k : Nat)      -- `except ValueError` …
  | deep                -- `except DeepReferenceError`
  | noneRet             -- `except NoneReturnedError`
deriving DecidableEq, Repr

def Catch.catches : Catch → Err → Bool
  | .all, .user k => k != kBase
  | .all, _ => true
  | .user k, .user k' => k == k'
  | .deep, .deep => true
  | .noneRet, .noneRet => true
  | _, _ => false

inductive Expr
  | lit (i : Int)
  | none
  | param (i : Nat)
  | add (a b : Expr)
  | sub (a b : Expr)
  | mul (a b : Expr)
  | lt (a b : Expr)
  | ite (c a b : Expr)
  | call (c : CellId) (args : List Expr)
  | readN (r : RefId)
  | readA (r : RefId)
  | raise (k : Nat)
  | try_ (a : Expr) (c : Catch) (b : Expr)
  /-- `try: a` / `except <c>: b; raise` – the handler evaluates `b` for what it does (it calls
  cells), then the exception that was caught propagates again; if `b` itself fails, that new
  exception propagates instead -/
  | tryRe (a : Expr) (c : Catch) (b : Expr)
  /-- `try: a` / `finally: b` – `b` is evaluated whether `a` returned or raised; then the value of
  `a` is the result, or the exception of `a` propagates again; if `b` fails, its exception
  propagates instead -/
  | tryFin (a : Expr) (b : Expr)
  /-- a call spelled with keyword arguments and / or relying on default values of the callee:
  `c(e₁, …, e_npos, a_{kws₁} = e_{npos+1}, …)`.  `args` are ALL argument expressions in source
  order (Python evaluates them in that order, whatever the parameters they are for), the first
  `npos` positional, the others for the parameters (by index) `kws`; an index that is not a
  parameter of the callee stands for a keyword the callee does not have.  `dflt` are the default
  values of the LAST `dflt.length` parameters of the callee (written in by the driver's reader from
  the signature the program declares for `c`).  The element that is called is the one `bindKey`
  computes – `inspect.Signature.bind` + `apply_defaults`, i.e. `node._bind_args`. -/
  | callK (c : CellId) (args : List Expr) (npos : Nat) (kws : List Nat) (dflt : List Val)
deriving Repr, Inhabited

/-! ### Argument binding (`modelx/core/node.py` `_bind_args` for positional-or-keyword parameters)

The same rule as `MxModel.ItemSpace.bindArgs` (theorems `bind_iff`, `bind_canonical` of C07), over
the values of this layer and with parameters named by their index. -/

def distinctNats : List Nat → Bool
  | [] => true
  | x :: xs => !xs.contains x && distinctNats xs

/-- the value parameter `i` gets: the positional argument, else the keyword argument of its name, else
its default (parameters `a - dflt.length … a - 1` have one); `none` = a missing argument -/
def bindSlot (a : Nat) (dflt pos : List Val) (kw : List (Nat × Val)) (i : Nat) : Option Val :=
  if i < pos.length then pos[i]?
  else match kw.find? (fun e => e.1 == i) with
    | some e => some e.2
    | none => if a ≤ i + dflt.length then dflt[i + dflt.length - a]? else none

def bindSlots (a : Nat) (dflt pos : List Val) (kw : List (Nat × Val)) : List Nat → Option Key
  | [] => some []
  | i :: is => match bindSlot a dflt pos kw i, bindSlots a dflt pos kw is with
    | some v, some vs => some (v :: vs)
    | _, _ => none

/-- the key (one value per parameter) a spelling denotes, or `none` where Python raises `TypeError`:
too many positional arguments, a keyword for a parameter that also has a positional argument, a
keyword that names no parameter, a repeated keyword, a parameter left without a value -/
def bindKey (a : Nat) (dflt pos : List Val) (kw : List (Nat × Val)) : Option Key :=
  if a < pos.length then none
  else if !distinctNats (kw.map (·.1)) then none
  else if kw.any (fun e => e.1 < pos.length || a ≤ e.1) then none
  else bindSlots a dflt pos kw (List.range a)

def arith (op : Int → Int → Int) (a b : Val) (k : Val → Prog) (h : Bool → Err → Prog) : Prog :=
  match a, b with
  | .int x, .int y => k (.int (op x y))
  | _, _ => h true (.user kType)

def truthy : Val → Bool
  | .int i => i != 0
  | .none => false

mutual
def compile (ar : CellId → Option Nat) (params : List Val) : Expr → (Val → Prog) → (Bool → Err → Prog) → Prog
  | .lit i, k, _ => k (.int i)
  | .none, k, _ => k .none
  | .param i, k, h => match params[i]? with
    | some v => k v
    | none => h true (.user kName)
  | .add a b, k, h => compile ar params a (fun x => compile ar params b (fun y => arith (· + ·) x y k h) h) h
  | .sub a b, k, h => compile ar params a (fun x => compile ar params b (fun y => arith (· - ·) x y k h) h) h
  | .mul a b, k, h => compile ar params a (fun x => compile ar params b (fun y => arith (· * ·) x y k h) h) h
  | .lt a b, k, h => compile ar params a (fun x => compile ar params b (fun y =>
      arith (fun p q => if p < q then 1 else 0) x y k h) h) h
  | .ite c a b, k, h => compile ar params c (fun x =>
      if truthy x then compile ar params a k h else compile ar params b k h) h
  | .call c args, k, h =>
    -- LOAD_GLOBAL fails first; arguments are evaluated next; binding them (`get_node`) may
    -- raise TypeError in the caller, before anything is pushed on the call stack
    match ar c with
    | none => h true (.user kName)
    | some a => compileArgs ar params args (fun vs =>
        if vs.length = a then
          .call (c, vs) (fun r => match r with | .ok v => k v | .err e => h false e)
        else h true (.user kType)) h
  | .readN r, k, h => .read false r (fun o => match o with
    | some v => k v
    | none => h true (.user kName))
  | .readA r, k, h => .read true r (fun o => match o with
    | some v => k v
    | none => h true (.user kAttr))
  | .raise e, _, h => h true (.user e)
  | .try_ a c b, k, h => compile ar params a k (fun isNew e =>
      if c.catches e then compile ar params b k h else h isNew e)
  -- the calls `b` makes happen while the exception is being handled; when they have returned, the
  -- SAME exception goes on (`h isNew e`: for an exception received from a callee that is
  -- `reraise`, and the executor's `keepExc` has kept its identity across the calls)
  | .tryRe a c b, k, h => compile ar params a k (fun isNew e =>
      if c.catches e then compile ar params b (fun _ => h isNew e) h else h isNew e)
  | .tryFin a b, k, h => compile ar params a (fun v => compile ar params b (fun _ => k v) h)
      (fun isNew e => compile ar params b (fun _ => h isNew e) h)
  | .callK c args npos kws dflt, k, h =>
    -- as `.call`: the callee is loaded, the arguments are evaluated in source order, then they are
    -- bound (`get_node`); a spelling that does not bind is a TypeError in the caller
    match ar c with
    | none => h true (.user kName)
    | some a => compileArgs ar params args (fun vs =>
        match bindKey a dflt (vs.take npos) (kws.zip (vs.drop npos)) with
        | some key => .call (c, key) (fun r => match r with | .ok v => k v | .err e => h false e)
        | none => h true (.user kType)) h
def compileArgs (ar : CellId → Option Nat) (params : List Val) : List Expr → (List Val → Prog) → (Bool → Err → Prog) → Prog
  | [], k, _ => k []
  | e :: es, k, h => compile ar params e (fun v => compileArgs ar params es (fun vs => k (v :: vs)) h) h
end

/-! Static scoping: a formula resolves global names in the namespace of its own space only.  A
by-name read of a reference that is not visible there is a `NameError` whatever the reference
holds. -/
mutual
def scopeExpr (visible : RefId → Bool) : Expr → Expr
  | .lit i => .lit i
  | .none => .none
  | .param i => .param i
  | .add a b => .add (scopeExpr visible a) (scopeExpr visible b)
  | .sub a b => .sub (scopeExpr visible a) (scopeExpr visible b)
  | .mul a b => .mul (scopeExpr visible a) (scopeExpr visible b)
  | .lt a b => .lt (scopeExpr visible a) (scopeExpr visible b)
  | .ite c a b => .ite (scopeExpr visible c) (scopeExpr visible a) (scopeExpr visible b)
  | .call c args => .call c (scopeExprs visible args)
  | .readN r => if visible r then .readN r else .raise kName
  | .readA r => .readA r
  | .raise k => .raise k
  | .try_ a c b => .try_ (scopeExpr visible a) c (scopeExpr visible b)
  | .tryRe a c b => .tryRe (scopeExpr visible a) c (scopeExpr visible b)
  | .tryFin a b => .tryFin (scopeExpr visible a) (scopeExpr visible b)
  | .callK c args npos kws dflt => .callK c (scopeExprs visible args) npos kws dflt
def scopeExprs (visible : RefId → Bool) : List Expr → List Expr
  | [] => []
  | e :: es => scopeExpr visible e :: scopeExprs visible es
end

/-! Cells that do not exist (deleted, not created yet).  `dead c = some byPath` says that no cells
`c` exists and how the formula spells it: by global name (`NameError`) or through an attribute
path `Ch.c` / `_space.parent.c` (`AttributeError`).  Python fails when it LOADS the callee, before
any argument is evaluated: the call is made with no arguments (the model gives a missing cells
arity 0), `evalNode` answers it with the error of an unbound name, and a spelling by path turns
that into `AttributeError`. -/
mutual
def deadExpr (dead : CellId → Option Bool) : Expr → Expr
  | .lit i => .lit i
  | .none => .none
  | .param i => .param i
  | .add a b => .add (deadExpr dead a) (deadExpr dead b)
  | .sub a b => .sub (deadExpr dead a) (deadExpr dead b)
  | .mul a b => .mul (deadExpr dead a) (deadExpr dead b)
  | .lt a b => .lt (deadExpr dead a) (deadExpr dead b)
  | .ite c a b => .ite (deadExpr dead c) (deadExpr dead a) (deadExpr dead b)
  | .call c args =>
    match dead c with
    | none => .call c (deadExprs dead args)
    | some false => .call c []
    | some true => .try_ (.call c []) (.user kName) (.raise kAttr)
  | .readN r => .readN r
  | .readA r => .readA r
  | .raise k => .raise k
  | .try_ a c b => .try_ (deadExpr dead a) c (deadExpr dead b)
  | .tryRe a c b => .tryRe (deadExpr dead a) c (deadExpr dead b)
  | .tryFin a b => .tryFin (deadExpr dead a) (deadExpr dead b)
  | .callK c args npos kws dflt =>
    match dead c with
    | none => .callK c (deadExprs dead args) npos kws dflt
    | some false => .call c []
    | some true => .try_ (.call c []) (.user kName) (.raise kAttr)
def deadExprs (dead : CellId → Option Bool) : List Expr → List Expr
  | [] => []
  | e :: es => deadExpr dead e :: deadExprs dead es
end

/-! The blocks of `tryRe` / `tryFin` are modelled for bodies that do not handle exceptions
themselves: after a `try … except` INSIDE such a block has swallowed a failure of its own, Python
goes back to the exception the block is handling, whereas the model's `curExc` stays with the
failure swallowed last (the executor keeps identities across calls that return, not across handlers
of the same formula).  The driver refuses formulas outside this class (`blocksSimple`). -/
mutual
def tryFree : Expr → Bool
  | .lit _ => true
  | .none => true
  | .param _ => true
  | .add a b => tryFree a && tryFree b
  | .sub a b => tryFree a && tryFree b
  | .mul a b => tryFree a && tryFree b
  | .lt a b => tryFree a && tryFree b
  | .ite c a b => tryFree c && tryFree a && tryFree b
  | .call _ args => tryFreeList args
  | .readN _ => true
  | .readA _ => true
  | .raise _ => true
  | .try_ _ _ _ => false
  | .tryRe _ _ _ => false
  | .tryFin _ _ => false
  | .callK _ args _ _ _ => tryFreeList args
def tryFreeList : List Expr → Bool
  | [] => true
  | e :: es => tryFree e && tryFreeList es
end

mutual
def blocksSimple : Expr → Bool
  | .lit _ => true
  | .none => true
  | .param _ => true
  | .add a b => blocksSimple a && blocksSimple b
  | .sub a b => blocksSimple a && blocksSimple b
  | .mul a b => blocksSimple a && blocksSimple b
  | .lt a b => blocksSimple a && blocksSimple b
  | .ite c a b => blocksSimple c && blocksSimple a && blocksSimple b
  | .call _ args => blocksSimpleList args
  | .readN _ => true
  | .readA _ => true
  | .raise _ => true
  | .try_ a _ b => blocksSimple a && blocksSimple b
  | .tryRe a _ b => blocksSimple a && tryFree b
  | .tryFin a b => blocksSimple a && tryFree b
  | .callK _ args _ _ _ => blocksSimpleList args
def blocksSimpleList : List Expr → Bool
  | [] => true
  | e :: es => blocksSimple e && blocksSimpleList es
end

/-- formula of a cells whose body is `e`, applied to the key (arity already checked) -/
def formulaOf (ar : CellId → Option Nat) (e : Expr) (key : Key) : Prog :=
  compile ar key e .ret (fun isNew e => if isNew then .raise e else .reraise e)

end MxModel.Exec
