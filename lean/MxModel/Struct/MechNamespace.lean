import MxModel.Struct.Mech
import MxModel.Struct.Namespace
/-!
# The namespace of a space of the mechanism model, as the chain of maps the code builds

`BaseSpaceImpl.__init__` (modelx/core/space.py): `ImplChainMap("namespace", …, [self._cells, self._refs,
self._named_spaces], map_ids=("cells", "refs", "spaces"))`, where `_refs` of a static space is
`RefChainMap("refs", …, [self._own_refs, self._sys_refs, self.model._global_refs])`
(`UserSpaceImpl._init_refs`) and `_sys_refs` holds `_self`, `_space`, `_model` (space.py:1389-1390).
Formulas (`namespace` handed to the formula's globals), attribute access (`get_attr` reads
`self.namespace[name]`) and `dir()` (`__dir__` lists `self._impl.namespace`) all read this one chain; the
model therefore has ONE namespace per space, and that the three views of the implementation coincide
is the business of the check's oracle.

The ORDER of the maps is a parameter here (`order`, `refsOrder`): `Props/C12.lean` instantiates it with the
tables regenerated from the source on every run (`Generated.namespaceOrder`, `Generated.userRefsOrder`).
-/
namespace MxModel.SM
open MxModel.Struct

/-- what a visible name denotes -/
inductive Denot
  | cells (m : Member)
  /-- a reference of the space itself: defined there, or derived from a base -/
  | ownRef (m : Member)
  /-- one of the special names `_self`, `_space`, `_model` -/
  | sys
  /-- a model-level reference -/
  | global
  | child
  deriving DecidableEq, Repr

/-- the keys of `_sys_refs` -/
def sysNames : List String := ["_self", "_space", "_model"]

/-- a container of the space `q` (empty when `q` is no space) -/
def St.members (st : St) (a : Attr) (q : Path) : Members :=
  match st.find q with
  | some s => s.get a
  | none => []

/-- the maps of `refs`, by the names `_init_refs` lists them under -/
def St.refMaps (st : St) (q : Path) : String → List (String × NMap Denot)
  | "own_refs" => [("own_refs", (st.members .refs q).map (fun e => (e.1, Denot.ownRef e.2)))]
  | "sys_refs" => [("sys_refs", sysNames.map (fun n => (n, Denot.sys)))]
  | "global_refs" => [("global_refs", st.globals.map (fun n => (n, Denot.global)))]
  | _ => []

/-- the maps of the namespace, by the `map_ids` the source gives them; `refs` is itself a chain -/
def St.nsMaps (st : St) (refsOrder : List String) (q : Path) : String → List (String × NMap Denot)
  | "cells" => [("cells", (st.members .cells q).map (fun e => (e.1, Denot.cells e.2)))]
  | "refs" => refsOrder.flatMap (st.refMaps q)
  | "spaces" => [("spaces", (st.childNames q).map (fun n => (n, Denot.child)))]
  | _ => []

/-- the namespace of `q`: the flattened chain, in the order the two tables give -/
def St.namespaceIn (st : St) (order refsOrder : List String) (q : Path) : List (String × NMap Denot) :=
  order.flatMap (st.nsMaps refsOrder q)

/-- the kind the mechanism's own checks (`St.kindOf`, used by `_can_add` and `new_ref`) assign to a
denotation -/
def Denot.kind : Denot → Kind
  | .cells _ => .cells
  | .ownRef _ => .ref
  | .sys => .ref
  | .global => .ref
  | .child => .space

end MxModel.SM
