import MxModel.Struct.Mech
/-!
# Creating several cells with one call

`new_cells_from_pandas(df, cells=[...])`, `new_cells_from_excel`, `new_cells_from_csv` (and the other
"several members from one table" calls) are, in the code, a loop of single `new_cells` calls.  When the
k-th of them is refused the call raises - and the k-1 cells created before stay: a rejected edit has
changed the model.

This file models both behaviours next to each other:

* `St.newCellsLoop` / `St.newCellsSeq` - what the loop does (`newCellsLoop` also returns the state the
  loop had reached when it stopped),
* `St.newCellsBatch` / `St.batchStep` - what the call should do: every check is made first, in the state
  the call was given, and only then anything is created.

`Proofs/StructMechBatch.lean` proves that the two accept exactly the same calls and then build the same
state; they differ only in what a refused call leaves behind.
-/
namespace MxModel.SM

/-- the mutation of `SpaceManager.new_cells` without its checks: the cells is put into `p` and derived
into the sub spaces of `p` (`St.newCells` is the checks followed by this) -/
def St.putCells (st : St) (p : Path) (name : String) (v : Nat) : St :=
  let st1 := st.setMem .cells p name { derived := false, payload := v }
  (st1.subs p).foldl (fun s q => s.newMemberSub .cells p name v q) st1

/-- all the creations of a call, unchecked, one after the other -/
def St.putCellsAll (st : St) (p : Path) (es : List (String × Nat)) : St :=
  es.foldl (fun s e => s.putCells p e.1 e.2) st

variable (kw : List String)

/-- what the code does: single `new_cells` calls one after the other, each checked in the state the
earlier ones left; `none` as soon as one is refused -/
def St.newCellsSeq (st : St) (p : Path) : List (String × Nat) → Option St
  | [] => some st
  | e :: es =>
    match st.newCells kw p e.1 e.2 with
    | some st' => St.newCellsSeq st' p es
    | none => none

/-- the loop of the code with the state it leaves behind: the final state and `true`, or the state that was
reached when the first creation was refused (the earlier ones applied) and `false` -/
def St.newCellsLoop (st : St) (p : Path) : List (String × Nat) → St × Bool
  | [] => (st, true)
  | e :: es =>
    match st.newCells kw p e.1 e.2 with
    | some st' => St.newCellsLoop st' p es
    | none => (st, false)

/-- the names of a call are pairwise distinct -/
def nodupNames : List (String × Nat) → Bool
  | [] => true
  | e :: es => es.all (fun e' => e'.1 != e.1) && nodupNames es

/-- the check of one name of a call, made in the state the call was given: the checks of `St.newCells` -/
def St.cellsOk (st : St) (p : Path) (name : String) : Bool :=
  st.has p && Names.isValidName kw name && st.canAdd p name .cells

/-- the up-front check of a whole call, made in the state the call was given and nowhere else: the names are
pairwise distinct and each of them passes the checks of a single `new_cells` -/
def St.batchOk (st : St) (p : Path) (es : List (String × Nat)) : Bool :=
  nodupNames es && es.all (fun e => st.cellsOk kw p e.1)

/-- the atomic call: check everything, then create everything -/
def St.newCellsBatch (st : St) (p : Path) (es : List (String × Nat)) : Option St :=
  if st.batchOk kw p es then some (st.putCellsAll p es) else none

/-- like `St.step`: a refused call returns the state it was given -/
def St.batchStep (st : St) (p : Path) (es : List (String × Nat)) : St × Bool :=
  match st.newCellsBatch kw p es with
  | some st' => (st', true)
  | none => (st, false)

/-! ## the other calls that create several cells, as the code makes them today

`new_cells_from_pandas` / `_csv` (since /repo 3927bad) are `St.newCellsBatch`: `_overwrite_colnames` checks every
name in the state the call was given (valid, not given twice, `name in namespace or not _can_add`), then the
loop creates.  The calls below are the remaining ones; the `smech` driver has a line for each. -/

/-- one function of a module, checked in the state the call was given (`new_cells_from_module` since /repo
8ba4963): a name that is a cells of the space (own or derived) is an override - its formula is set -; any other
name in the namespace (a reference, a model-level reference, a child space) is refused; a new valid name has
to pass `_can_add`; a name that is no valid name is not checked (the cells gets an automatic name) -/
def St.funcOk (st : St) (p : Path) (name : String) : Bool :=
  st.has p &&
    (if (st.mem .cells p name).isSome then true
     else if (st.kindOf p name).isSome then false
     else !Names.isValidName kw name || st.canAdd p name .cells)

/-- the creation / override of one function, after the check -/
def St.putFunc (st : St) (p : Path) (e : String × Nat) : St :=
  if (st.mem .cells p e.1).isSome then (st.setFormula p e.1 e.2).getD st
  else (st.newCellsNamed kw p e.1 e.1 e.2).getD st

/-- `new_cells_from_module` / `import_funcs`: every function checked first, then created or overridden -/
def St.moduleBatch (st : St) (p : Path) (es : List (String × Nat)) : Option St :=
  if nodupNames es && es.all (fun e => st.funcOk kw p e.1) then some (es.foldl (fun s e => s.putFunc kw p e) st)
  else none

def St.moduleStep (st : St) (p : Path) (es : List (String × Nat)) : St × Bool :=
  match st.moduleBatch kw p es with
  | some st' => (st', true)
  | none => (st, false)

/-- `new_space_from_pandas` / `_csv` (since /repo 3927bad): the names are checked first - valid, not given
twice, not a model-level reference (all the new space will hold) -, then the space is created, then the cells -/
def St.newSpaceBatch (st : St) (parent : Path) (name : String) (es : List (String × Nat)) : Option St :=
  if !(nodupNames es && es.all (fun e => Names.isValidName kw e.1 && !st.globals.contains e.1)) then none
  else
    match st.newSpaceRefs kw parent name [] [] with
    | none => none
    | some st1 => st1.newCellsBatch kw (parent ++ [name]) es

def St.newSpaceBatchStep (st : St) (parent : Path) (name : String) (es : List (String × Nat)) : St × Bool :=
  match st.newSpaceBatch kw parent name es with
  | some st' => (st', true)
  | none => (st, false)

/-- `import_module` / `new_space_from_module`, AS THE CODE IS: the space is created first, the functions of the
module are looked at afterwards; when they are refused the call raises and the space - with what it derives
from its bases - stays (`false` with a state that is not the one the call was given: known finding
C11-import-module-space-first; `C11.loop_refused_halfway_differs` is the same shape for cells) -/
def St.newSpaceModule (st : St) (parent : Path) (name : String) (bases : List Path)
    (es : List (String × Nat)) : St × Bool :=
  match st.newSpaceRefs kw parent name bases [] with
  | none => (st, false)
  | some st1 =>
    match st1.moduleBatch kw (parent ++ [name]) es with
    | some st2 => (st2, true)
    | none => (st1, false)

/-- `import_module` / `new_space_from_module` with the functions checked BEFORE the space is created (candidate
repair `notes/R6C11-candidate_import_module.diff`): a function must not be named like a model-level reference
or like a reference of one of the bases (all the new space will hold besides cells, which a function
overrides; child spaces of a base are not derived); then the space, then the functions.  The harness asks the code which of the two it is
(`batch_api.import_module_checks_first`) and sends this line or `spacemodule`. -/
def St.newSpaceModuleChecked (st : St) (parent : Path) (name : String) (bases : List Path)
    (es : List (String × Nat)) : Option St :=
  let taken := st.globals ++ st.allNames .refs bases
  if !(nodupNames es && es.all (fun e => !taken.contains e.1)) then none
  else
    match st.newSpaceRefs kw parent name bases [] with
    | none => none
    | some st1 => st1.moduleBatch kw (parent ++ [name]) es

def St.newSpaceModuleCheckedStep (st : St) (parent : Path) (name : String) (bases : List Path)
    (es : List (String × Nat)) : St × Bool :=
  match st.newSpaceModuleChecked kw parent name bases es with
  | some st' => (st', true)
  | none => (st, false)

end MxModel.SM
