import MxModel.Kernels.C3
/-!
# Derived members: derivation from scratch along the C3 order

The specification the incremental maintenance of modelx (`UserSpaceImpl.on_inherit`,
`SpaceManager.new_cells` / `del_cells` / `set_cells_property` / `new_ref` / `change_ref`,
`SpaceUpdater.add_bases` / `remove_bases` / `del_defined_space`) has to agree with at every
moment: a space contains, besides its defined members, one derived copy of every name
defined in a space of the tail of its linearisation and not defined in itself, taken from
the first space of the linearisation that defines it.
-/
namespace MxModel.Struct
open MxModel.C3

variable {α : Type} [DecidableEq α]

/-- names defined in the spaces of `tail` (in linearisation order) that `own` does not define -/
def derivedNames (tail : List α) (defs : α → List String) (own : List String) : List String :=
  ((tail.flatMap defs).eraseDups).filter (fun x => !own.contains x)

/-- the first space of the linearisation that defines `name` -/
def firstDefiner (tail : List α) (defs : α → List String) (name : String) : Option α :=
  tail.find? (fun b => (defs b).contains name)

/-- derived copies with their definers -/
def derive (tail : List α) (defs : α → List String) (own : List String) : List (String × α) :=
  (derivedNames tail defs own).filterMap (fun x => (firstDefiner tail defs x).map (fun b => (x, b)))

/-- `space.bases`: the linearisation without the space itself -/
def basesOf (bases : α → List α) (depth : Nat) (s : α) : Option (List α) :=
  (mro bases depth s).map List.tail

end MxModel.Struct
