/-!
# The namespace of a space as a chain of maps (first match wins)

`ImplChainMap` / `RefChainMap` of modelx/core/base.py: a lookup goes through the maps in
order and returns the first hit.  The order of the maps is read from the source by the
table translator (`Generated.namespaceOrder`, `userRefsOrder`, `dynRefsOrder`).
-/
namespace MxModel.Struct

abbrev NMap (β : Type) := List (String × β)

def NMap.find {β : Type} (m : NMap β) (x : String) : Option β :=
  match m with
  | [] => none
  | (k, v) :: rest => if k = x then some v else NMap.find rest x

/-- lookup through a chain of named maps: the first map (in chain order) that has the name -/
def chainFind {β : Type} : List (String × NMap β) → String → Option (String × β)
  | [], _ => none
  | (mapName, m) :: rest, x =>
    match m.find x with
    | some v => some (mapName, v)
    | none => chainFind rest x

/-- the names visible through the chain -/
def chainKeys {β : Type} (chain : List (String × NMap β)) : List String :=
  chain.flatMap (fun e => e.2.map (·.1))

end MxModel.Struct
