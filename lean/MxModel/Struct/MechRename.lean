import MxModel.Struct.Mech
/-!
# `SpaceManager.rename_space` (modelx/core/model.py) in the mechanism model

```
if not is_valid_name(name): raise ValueError
parent = space.parent
if not self._can_add(parent, name, UserSpaceImpl): raise ValueError
mapping = {node: ".".join(new_id + old_child[len(new_id):]) for node in visit_tree(space)}
space.on_rename(name)                      # name, the parent's container of spaces; values are cleared (Exec)
nx.relabel_nodes(self._graph, mapping, copy=False)
```

The state of the mechanism model stores paths in three places: the id of a space (the tree: the
containers of child spaces), the direct bases of a space (the edges of the inheritance graph, whose
node ids are paths) and the key of a `cellsnamer`.  Members carry payloads, not paths, so the derived
members are untouched; linearisations are not stored, they are recomputed from the direct bases.
`rename_space` is therefore one relabelling of paths, applied everywhere: a path at or below
`parent ++ [old]` gets the component at position `parent.length` replaced by the new name (the code's
`new_id + old_child[len(new_id):]`), every other path stays.

`rename_space` is not a constructor of `SM.Op`; histories with renames are `OpR` / `St.runR` below, and
`Proofs/StructMechRenameSpace.lean` proves the invariant for them by one transport lemma (`Inv` is
invariant under an injective relabelling that maps parents to parents) instead of a thirteenth case in
every proof by cases on `Op`.
-/
namespace MxModel.SM

/-- the code's `mapping`, extended by the identity outside the tree of the renamed space:
`new_id + old_child[len(new_id):]` for the paths at or below `p`, where `new_id = p[:-1] + (new,)` -/
def relabel (p : Path) (new : String) (q : Path) : Path :=
  if isPrefix p q then p.dropLast ++ new :: q.drop p.length else q

def Space.mapPaths (ρ : Path → Path) (s : Space) : Space :=
  { s with id := ρ s.id, bases := s.bases.map ρ }

/-- the same relabelling in every place where the state holds a path -/
def St.mapPaths (ρ : Path → Path) (st : St) : St :=
  { spaces := st.spaces.map (Space.mapPaths ρ)
    globals := st.globals
    namers := st.namers.map (fun e => (ρ e.1, e.2)) }

inductive RenameErr
  | noSuchSpace     -- not a call the interface can make (`space.rename` is a method of an existing space)
  | invalidName     -- `ValueError("name '%s' is invalid")`
  | cannotAdd       -- `ValueError("Cannot rename '%s' to '%s'")`
  deriving DecidableEq, Repr

/-- `SpaceManager.rename_space(space, name)`: the checks in the order of the code, then the relabelling.
`_can_add(parent, name, UserSpaceImpl)` is `St.canAdd parent name .space`: for a top-level space the
name is no top-level space and no model-level reference; for a nested one it is nothing in the
namespace of the parent (this refuses the space's own name too) and nothing but a child space in the
namespace of any sub space of the parent. -/
def St.renameSpace (kw : List String) (st : St) (p : Path) (new : String) : Except RenameErr St :=
  if p == [] || !st.has p then .error .noSuchSpace
  else if !Names.isValidName kw new then .error .invalidName
  else if !st.canAdd p.dropLast new .space then .error .cannotAdd
  else .ok (st.mapPaths (relabel p new))

/-! ## histories with renames -/

inductive OpR
  | op (o : Op)
  | renameSpace (p : Path) (new : String)
  deriving Repr

def St.applyR (kw : List String) (st : St) : OpR → Option St
  | .op o => st.apply kw o
  | .renameSpace p new =>
    match st.renameSpace kw p new with
    | .ok st' => some st'
    | .error _ => none

/-- a rejected operation leaves the state as it is -/
def St.stepR (kw : List String) (st : St) (op : OpR) : St × Bool :=
  match st.applyR kw op with
  | some st' => (st', true)
  | none => (st, false)

def St.runR (kw : List String) (st : St) (ops : List OpR) : St := ops.foldl (fun s op => (s.stepR kw op).1) st

/-! ## what `rename_space` is NOT: the mapping of seeded change C12-mutG

relabel the FIRST component that equals the old name (instead of the component at the position of
the renamed space) -/

def replaceFirst (old new : String) : Path → Path
  | [] => []
  | c :: rest => if c == old then new :: rest else c :: replaceFirst old new rest

/-- the graph side of C12-mutG: node ids below `p` are relabelled with `replaceFirst`, the tree side
(names in the containers) is renamed correctly; the state keeps ONE id per space, so the mismatch
shows as a direct base that is no id -/
def St.renameSpaceFirst (st : St) (p : Path) (new : String) : St :=
  let old := p.getLast?.getD ""
  { st with spaces := st.spaces.map (fun s =>
      { s with id := relabel p new s.id
               bases := s.bases.map (fun b => if isPrefix p b then replaceFirst old new b else b) }) }

end MxModel.SM
