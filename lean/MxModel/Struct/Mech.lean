import MxModel.Kernels.C3
import MxModel.Kernels.Names
/-!
# The incremental maintenance of derived members (mechanism model)

`SpaceManager` / `SpaceUpdater` (modelx/core/model.py) and `UserSpaceImpl.on_inherit`
(modelx/core/space.py), operation by operation: which checks are made before anything is
changed, which space gets the new definition, and which sub spaces are walked and what is
done to each of them.  Members carry an abstract payload (the identity of a formula, the
value of a reference).  `none` = the operation raises and nothing is changed.

What is *not* in the model: values and the dependency graph (that is `Exec`), object-valued
references and their relative rebinding (`Kernels/Relative`), parametrised spaces
(`Kernels/ItemSpace`), the order of members inside a container, `UserSpace.copy`,
`new_space(formula=...)`, `new_cells_from_module` / `reload`, documentation strings, and Python's own
attribute protocol: a name that is an attribute of the interface class (`bases`, `cells`, `doc`, ...)
never reaches `set_attr` / `del_attr` when it is assigned or deleted as an attribute; assigning to the
name of a cells without parameters is a value assignment (`Exec`), not a reference edit.
`rename_space` is not one of the twelve constructors of `Op` below: it is `St.renameSpace` in
`Struct/MechRename.lean` (histories `OpR` / `St.runR`, invariant `Proofs/StructMechRenameSpace.lean`).

The model describes the code with the candidate repairs `notes/STRUCTX-candidate_*.diff` applied where
the unchanged code violates C11/C12 (known findings, each with a witness in `corpus/`): references
handed to `new_space(refs=...)` are checked like references set afterwards, and a cells that is named
after its formula or automatically is checked under the name it gets.

`Proofs/StructMech*.lean` prove that every accepted operation keeps the state equal to the
derivation from scratch (`Struct.derive`, `Inv` below) – C03's "incremental maintenance always
equals derivation from scratch" – together with the well-formedness C11/C12/C13 speak about.
-/
namespace MxModel.SM
open MxModel.C3

abbrev Path := List String

structure Member where
  derived : Bool
  payload : Nat
  deriving DecidableEq, Repr, Inhabited

abbrev Members := List (String × Member)

inductive Attr | cells | refs
  deriving DecidableEq, Repr

structure Space where
  id : Path
  bases : List Path
  cells : Members
  refs : Members
  deriving Repr

def Space.get (s : Space) : Attr → Members
  | .cells => s.cells
  | .refs => s.refs

def Space.set (s : Space) : Attr → Members → Space
  | .cells, m => { s with cells := m }
  | .refs, m => { s with refs := m }

structure St where
  spaces : List Space := []
  globals : List String := []
  /-- the `cellsnamer` of each space (`AutoNamer("Cells")`): the last postfix handed out; absent = 0 -/
  namers : List (Path × Nat) := []
  deriving Repr

/-! ## containers -/

def mget (ms : Members) (n : String) : Option Member := (ms.find? (fun e => e.1 == n)).map (·.2)

def mset (ms : Members) (n : String) (m : Member) : Members :=
  if (mget ms n).isSome then ms.map (fun e => if e.1 == n then (n, m) else e) else ms ++ [(n, m)]

def mdel (ms : Members) (n : String) : Members := ms.filter (fun e => e.1 != n)

/-! ## the state -/

def St.find (st : St) (p : Path) : Option Space := st.spaces.find? (fun s => s.id == p)

def St.has (st : St) (p : Path) : Bool := (st.find p).isSome

def St.upd (st : St) (p : Path) (f : Space → Space) : St :=
  { st with spaces := st.spaces.map (fun s => if s.id == p then f s else s) }

def St.basesOf (st : St) (p : Path) : List Path :=
  match st.find p with
  | some s => s.bases
  | none => []

/-- `SpaceGraph.get_mro` -/
def St.mro (st : St) (p : Path) : Option (List Path) := C3.mro st.basesOf (st.spaces.length + 1) p

/-- `_get_space_bases`: the linearisation without the space itself -/
def St.tail (st : St) (p : Path) : List Path :=
  match st.mro p with
  | some l => l.tail
  | none => []

def St.mem (st : St) (a : Attr) (p : Path) (n : String) : Option Member :=
  match st.find p with
  | some s => mget (s.get a) n
  | none => none

/-- the payload of `n` in `p` if `p` *defines* it -/
def St.defd (st : St) (a : Attr) (p : Path) (n : String) : Option Nat :=
  match st.mem a p n with
  | some m => if m.derived then none else some m.payload
  | none => none

/-- `get_deriv_bases(..., defined_only=True)[0]` -/
def St.firstDef (st : St) (a : Attr) (l : List Path) (n : String) : Option (Path × Nat) :=
  l.findSome? (fun b => (st.defd a b n).map (fun v => (b, v)))

def St.ids (st : St) : List Path := st.spaces.map (·.id)

/-- `_get_subs(space)`: the spaces that have `p` in their linearisation -/
def St.subs (st : St) (p : Path) : List Path :=
  st.ids.filter (fun q => q != p && (st.tail q).contains p)

def St.setMem (st : St) (a : Attr) (p : Path) (n : String) (m : Member) : St :=
  st.upd p (fun s => s.set a (mset (s.get a) n m))

def St.delMem (st : St) (a : Attr) (p : Path) (n : String) : St :=
  st.upd p (fun s => s.set a (mdel (s.get a) n))

/-! ## `UserSpaceImpl.on_inherit`: one space, one kind of member -/

def St.definedNames (st : St) (a : Attr) (b : Path) : List String :=
  match st.find b with
  | some s => (s.get a).filterMap (fun e => if e.2.derived then none else some e.1)
  | none => []

def St.onInherit (st : St) (a : Attr) (q : Path) : St :=
  match st.find q with
  | none => st
  | some s =>
    let tail := st.tail q
    let own := (s.get a).filter (fun e => !e.2.derived)
    let names := (tail.flatMap (st.definedNames a)).eraseDups
    let der := names.filterMap (fun n =>
      if (mget own n).isSome then none
      else (st.firstDef a tail n).map (fun d => (n, ({ derived := true, payload := d.2 } : Member))))
    st.upd q (fun s => s.set a (own ++ der))

/-- `_update_derived_space` followed by `_update_derived_refs` -/
def St.updateDerived (st : St) (q : Path) : St := (st.onInherit .cells q).onInherit .refs q

def St.updateAll (st : St) (qs : List Path) : St := qs.foldl St.updateDerived st

/-! ## names -/

inductive Kind | cells | space | ref
  deriving DecidableEq, Repr

def St.childNames (st : St) (p : Path) : List String :=
  st.spaces.filterMap (fun s => if s.id != [] && s.id.dropLast == p then s.id.getLast? else none)

/-- what `name` is in the namespace of `p`: the chain of maps is cells, references (own ones, then the
model-level ones), child spaces - in this order (`Generated.namespaceOrder`, `C12.code_precedence`) -/
def St.kindOf (st : St) (p : Path) (n : String) : Option Kind :=
  if (st.mem .cells p n).isSome then some .cells
  else if (st.mem .refs p n).isSome || st.globals.contains n then some .ref
  else if (st.childNames p).contains n then some .space
  else none

/-- `SpaceManager._can_add` -/
def St.canAdd (st : St) (parent : Path) (n : String) (k : Kind) : Bool :=
  if parent == [] then !((st.childNames []).contains n || st.globals.contains n)
  else if (st.kindOf parent n).isSome then false
  else (st.subs parent).all (fun q =>
    match st.kindOf q n with
    | none => true
    | some k' => k' == k)

def St.allNames (st : St) (a : Attr) (l : List Path) : List String :=
  l.flatMap (fun b => match st.find b with | some s => (s.get a).map (·.1) | none => [])

def disjoint (xs ys : List String) : Bool := xs.all (fun x => !ys.contains x)

/-- `_check_name_conflict(mro, node)` -/
def St.noConflict (st : St) (l : List Path) (childs : List String) : Bool :=
  let cs := st.allNames .cells l
  let rs := st.allNames .refs l
  disjoint cs rs && disjoint cs childs && disjoint rs childs

def dedupLast (l : List Path) : List Path := (l.reverse.eraseDups).reverse

/-! ## the operations -/

variable (kw : List String)

/-- `SpaceUpdater.new_space` -/
def St.newSpace (st : St) (parent : Path) (name : String) (bases : List Path) : Option St :=
  if !(parent == [] || st.has parent) || !bases.all st.has then none
  else if !st.canAdd parent name .space then none
  else if !Names.isValidName kw name then none
  else
    let id := parent ++ [name]
    let st1 : St := { st with spaces := st.spaces ++ [{ id := id, bases := dedupLast bases, cells := [], refs := [] }] }
    match st1.mro id with
    | none => none
    | some l =>
      if !st1.noConflict l [] then none
      else some (st1.updateDerived id)

def isPrefix (p q : Path) : Bool := q.take p.length == p

/-- `SpaceUpdater.del_defined_space` -/
def St.delSpace (st : St) (p : Path) : Option St :=
  if !st.has p then none
  else
    let removed := st.ids.filter (isPrefix p)
    let toUpdate := (removed.flatMap st.subs).eraseDups.filter (fun q => !removed.contains q)
    let kept := (st.spaces.filter (fun s => !removed.contains s.id)).map
      (fun s => { s with bases := s.bases.filter (fun b => !removed.contains b) })
    let st1 : St := { st with spaces := kept }
    -- losing a base can leave a sub space without a C3 MRO: checked before anything is changed
    if !toUpdate.all (fun q => (st1.mro q).isSome) then none
    else some (st1.updateAll toUpdate)

/-- one sub space of `SpaceManager.new_cells` / `new_ref` -/
def St.newMemberSub (st : St) (a : Attr) (p : Path) (name : String) (v : Nat) (q : Path) : St :=
  match st.mem a q name with
  | some m =>
    if m.derived then
      match st.firstDef a (st.tail q) name with
      | some (b, w) => if b == p then st.setMem a q name { derived := true, payload := w } else st
      | none => st
    else st
  | none => st.setMem a q name { derived := true, payload := v }

/-- `SpaceManager.new_cells` -/
def St.newCells (st : St) (p : Path) (name : String) (v : Nat) : Option St :=
  if !st.has p then none
  else if !Names.isValidName kw name then none
  else if !st.canAdd p name .cells then none
  else
    let st1 := st.setMem .cells p name { derived := false, payload := v }
    some ((st1.subs p).foldl (fun s q => s.newMemberSub .cells p name v q) st1)

/-- one sub space of `set_cells_property` / `change_ref` -/
def St.changeMemberSub (st : St) (a : Attr) (p : Path) (name : String) (v : Nat) (q : Path) : St :=
  match st.mem a q name with
  | some m =>
    if !m.derived then st
    else match st.firstDef a (st.tail q) name with
      | some (b, _) => if b == p then st.setMem a q name { derived := true, payload := v } else st
      | none => st
  | none => st

def St.changeMember (st : St) (a : Attr) (p : Path) (name : String) (v : Nat) : St :=
  let st1 := st.setMem a p name { derived := false, payload := v }
  (st1.subs p).foldl (fun s q => s.changeMemberSub a p name v q) st1

/-- `SpaceManager.set_cells_property` (formula) -/
def St.setFormula (st : St) (p : Path) (name : String) (v : Nat) : Option St :=
  match st.mem .cells p name with
  | none => none
  | some _ => some (st.changeMember .cells p name v)

/-- `SpaceManager.del_cells` / `del_ref`: remove, then `update_subs(space, skip_self=False)` -/
def St.delMember (st : St) (a : Attr) (p : Path) (name : String) : Option St :=
  match st.mem a p name with
  | none => none
  | some m =>
    if m.derived then none
    else
      let st1 := st.delMem a p name
      some (st1.updateAll (p :: st1.subs p))

/-- one target of `rename_cells` -/
def St.renameIn (st : St) (p : Path) (old new : String) (q : Path) : St :=
  match st.mem .cells q old with
  | none => st
  | some m =>
    if q != p && (st.mem .cells q new).isSome then st.delMem .cells q old
    else (st.delMem .cells q old).setMem .cells q new m

/-- `SpaceManager.rename_cells` -/
def St.renameCells (st : St) (p : Path) (old new : String) : Option St :=
  match st.mem .cells p old with
  | none => none
  | some _ =>
    if !Names.isValidName kw new then none
    else if !st.canAdd p new .cells then none
    else if (st.tail p).any (fun b => (st.mem .cells b old).isSome) then none
    else
      let targets := (p :: st.subs p).filter (fun q =>
        match st.mem .cells q old with
        | none => false
        | some m =>
          q == p || !m.derived ||
            (match st.firstDef .cells (st.tail q) old with
             | some (b, _) => b == p
             | none => false))
      let st1 := targets.foldl (fun s q => s.renameIn p old new q) st
      some (st1.updateAll (st1.subs p))

/-- `SpaceUpdater.add_bases` -/
def St.addBases (st : St) (p : Path) (bs : List Path) : Option St :=
  if !st.has p || !bs.all st.has then none
  else
    let bs' := dedupLast bs
    let st1 := st.upd p (fun s => { s with bases := s.bases.filter (fun b => !bs'.contains b) ++ bs' })
    if !st1.ids.all (fun q => (st1.mro q).isSome) then none
    else
      let ds := p :: st1.subs p
      if !ds.all (fun d => match st1.mro d with
          | some l => st1.noConflict l (st1.childNames d)
          | none => false) then none
      else some (st1.updateAll ds)

/-- `SpaceUpdater.remove_bases` -/
def St.removeBases (st : St) (p : Path) (bs : List Path) : Option St :=
  if !st.has p || !bs.all st.has then none
  else if !bs.all (fun b => (st.basesOf p).contains b) || bs.eraseDups.length != bs.length then none
  else
    let ds := p :: st.subs p
    let st1 := st.upd p (fun s => { s with bases := s.bases.filter (fun b => !bs.contains b) })
    if !st1.ids.all (fun q => (st1.mro q).isSome) then none
    else some (st1.updateAll ds)

/-- `SpaceManager.new_ref` (value without identity).  `_find_name_in_subs(space, name)` starts with the
space itself: with a model-level reference of the name it finds that one and is satisfied; without
one, the first sub space that has the name in its namespace refuses.  In both cases the space itself
and every sub space is then checked for a cells or a child space of the name (the space itself:
with a model-level reference of the name the namespace resolves the name to that reference although
the space has a child space of the name). -/
def St.newRefOk (st : St) (p : Path) (name : String) : Bool :=
  if st.globals.contains name then
    (p :: st.subs p).all (fun q => (st.mem .cells q name).isNone && !(st.childNames q).contains name)
  else (p :: st.subs p).all (fun q => (st.kindOf q name).isNone)

def St.newRef (st : St) (p : Path) (name : String) (v : Nat) : Option St :=
  if !st.newRefOk p name then none
  else
    let st1 := st.setMem .refs p name { derived := false, payload := v }
    some ((st1.subs p).foldl (fun s q => s.newMemberSub .refs p name v q) st1)

/-- `UserSpaceImpl.set_attr` for a value that is not a modelx object.  (When `name` is a cells the code
assigns a value if the cells has no parameters - not a structural edit, the driver is not asked - and
raises otherwise.) -/
def St.setRef (st : St) (p : Path) (name : String) (v : Nat) : Option St :=
  if !st.has p then none
  else if !Names.isValidName kw name then none
  else match st.mem .refs p name with
    | some _ => some (st.changeMember .refs p name v)
    | none =>
      match st.kindOf p name with
      | some .cells => none
      | some .space => none
      | _ => st.newRef p name v

/-- `model.name = value`: `EditableParent.__setattr__` (modelx/core/parent.py) hands every name that is no
property of the interface class to `ModelImpl.set_attr`, which refuses the name of a top-level space
(`KeyError`), changes an existing model-level reference, and otherwise creates one.  There is NO
`is_valid_name` test on this path (`UserSpaceImpl.set_attr` has one): `model._x = 1`, `model._self = 1`,
`setattr(model, "for", 1)` are accepted and the name is then visible in the namespace of every space.
No check against the members of any space either. -/
def St.setGlobal (st : St) (name : String) : Option St :=
  if (st.childNames []).contains name then none
  else some { st with globals := if st.globals.contains name then st.globals else st.globals ++ [name] }

/-- `ModelImpl.del_attr` for a model-level reference -/
def St.delGlobal (st : St) (name : String) : Option St :=
  if st.globals.contains name then some { st with globals := st.globals.filter (· != name) } else none

/-! ## the API calls that are more than one of the operations above -/

/-- the references handed to the constructor of a space: each one as if it were set afterwards -/
def St.setRefs (st : St) (p : Path) : List (String × Nat) → Option St
  | [] => some st
  | e :: rest =>
    match st.setRef kw p e.1 e.2 with
    | none => none
    | some s => s.setRefs p rest

/-- `new_space(name, bases, refs={...})`: nothing is created when one of the references cannot be
(invalid name; the name of a cells the space derives) -/
def St.newSpaceRefs (st : St) (parent : Path) (name : String) (bases : List Path)
    (refs : List (String × Nat)) : Option St :=
  match st.newSpace kw parent name bases with
  | none => none
  | some st1 => st1.setRefs kw (parent ++ [name]) refs

def St.namerOf (st : St) (p : Path) : Nat :=
  match st.namers.find? (fun e => e.1 == p) with
  | some e => e.2
  | none => 0

def St.setNamer (st : St) (p : Path) (k : Nat) : St :=
  { st with namers := st.namers.filter (fun e => e.1 != p) ++ [(p, k)] }

/-- `AutoNamer.get_next`, repeated until the name can be added: the first postfix after `last` whose
name neither the space nor a sub space uses for something else -/
def St.autoFrom (st : St) (p : Path) : Nat → Nat → Nat
  | 0, last => last + 1
  | fuel + 1, last =>
    if st.canAdd p (Names.cand "" "Cells" (last + 1)) .cells then last + 1
    else st.autoFrom p fuel (last + 1)

/-- more names than this cannot be in the way -/
def St.nameCount (st : St) : Nat :=
  (st.spaces.map (fun s => s.cells.length + s.refs.length + 1)).sum + st.globals.length

def St.autoCells (st : St) (p : Path) : Nat := st.autoFrom p st.nameCount (st.namerOf p)

/-- `new_cells(name, formula)`: the cells bears the name given if that is a valid name, otherwise the
name of the formula if that is one (`fname`; anything else for a lambda or no formula), otherwise the
next automatic name of the space (`CellsImpl.__init__`) -/
def St.newCellsNamed (st : St) (p : Path) (name fname : String) (v : Nat) : Option St :=
  if Names.isValidName kw name then st.newCells kw p name v
  else if Names.isValidName kw fname then st.newCells kw p fname v
  else
    let k := st.autoCells p
    (st.newCells kw p (Names.cand "" "Cells" k) v).map (fun s => s.setNamer p k)

/-- deleting a space also forgets the automatic-name counters of the deleted spaces -/
def St.delSpaceOp (st : St) (p : Path) : Option St :=
  (st.delSpace p).map (fun s => { s with namers := s.namers.filter (fun e => !isPrefix p e.1) })

/-- the whole step function of the driver -/
inductive Op
  | newSpace (parent : Path) (name : String) (bases : List Path) (refs : List (String × Nat))
  | delSpace (p : Path)
  | newCells (p : Path) (name fname : String) (v : Nat)
  | setFormula (p : Path) (name : String) (v : Nat)
  | delCells (p : Path) (name : String)
  | renameCells (p : Path) (old new : String)
  | addBases (p : Path) (bs : List Path)
  | removeBases (p : Path) (bs : List Path)
  | setRef (p : Path) (name : String) (v : Nat)
  | delRef (p : Path) (name : String)
  | setGlobal (name : String)      -- `model.name = value` (`ModelImpl.set_attr`)
  | delGlobal (name : String)      -- `del model.name`
  deriving Repr

def St.apply (st : St) : Op → Option St
  | .newSpace parent name bases refs => st.newSpaceRefs kw parent name bases refs
  | .delSpace p => st.delSpaceOp p
  | .newCells p name fname v => st.newCellsNamed kw p name fname v
  | .setFormula p name v => st.setFormula p name v
  | .delCells p name => st.delMember .cells p name
  | .renameCells p old new => st.renameCells kw p old new
  | .addBases p bs => st.addBases p bs
  | .removeBases p bs => st.removeBases p bs
  | .setRef p name v => st.setRef kw p name v
  | .delRef p name => st.delMember .refs p name
  | .setGlobal name => st.setGlobal name
  | .delGlobal name => st.delGlobal name

/-- a rejected operation leaves the state as it is -/
def St.step (st : St) (op : Op) : St × Bool :=
  match st.apply kw op with
  | some st' => (st', true)
  | none => (st, false)

def St.run (st : St) (ops : List Op) : St := ops.foldl (fun s op => (s.step kw op).1) st

end MxModel.SM
